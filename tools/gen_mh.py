#!/usr/bin/env python3
"""Behaviour generators for multi-hash / stitched murmur (C05, C10) and rolling hash (C09)."""
import random

MH_FAMS = ["base", "sse", "avx", "avx2", "avx512", "isal", "legacy", "legacy_base"]
RH_SCANS = ["base", "00", "04", "disp"]
RH_FAMS = ["isal", "legacy", "int"]


def place(rng):
    r = rng.random()
    if r < 0.4:
        return "e"
    if r < 0.55:
        return "s"
    if r < 0.61:
        return "g"          # straddling a multiple of 4 GiB
    return "a%d" % rng.randrange(64)


def mh_totals(rng):
    base = [0, 1, 63, 64, 65, 1015, 1016, 1017, 1023, 1024, 1025, 2039, 2040, 2047, 2048, 2049]
    r = rng.random()
    if r < 0.5:
        return rng.choice(base)
    if r < 0.8:
        return 1024 * rng.randrange(0, 5) + rng.randrange(0, 1024)
    return 16384 + rng.randrange(0, 2048)


def partition(rng, total):
    """cut [0,total) into 1..8 updates, with zero-length pieces and cuts near 1024 multiples"""
    k = rng.choice([1, 1, 2, 2, 3, 4, 6, 8])
    cuts = set()
    for _ in range(k - 1):
        r = rng.random()
        if total == 0:
            cuts.add(0)
        elif r < 0.4:
            c = 1024 * rng.randrange(0, total // 1024 + 1) + rng.choice([0, 1, 4, 63, 64, 1000, 1020, 1023])
            cuts.add(min(c, total))
        else:
            cuts.add(rng.randrange(0, total + 1))
    pts = [0] + sorted(cuts) + [total]
    pieces = [b - a for a, b in zip(pts, pts[1:])]
    if rng.random() < 0.3:
        pieces.insert(rng.randrange(len(pieces) + 1), 0)
    return pieces


def mh_behaviour(rng, alg, fam, total=None, pieces=None):
    if total is None:
        total = mh_totals(rng)
    if pieces is None:
        pieces = partition(rng, total)
    seed = rng.choice([0, 1, 0xFFFFFFFF, 1 << 63, (1 << 64) - 1, rng.getrandbits(64), rng.getrandbits(32)]) if alg == "murmur" else 0
    cmds = ["mhinit 0 %s %s %d %d" % (alg, fam, seed >> 32, seed & 0xFFFFFFFF)]
    b = rng.choice([rng.randrange(2, 1 << 20)] * 6 + [0, 1])
    off = rng.randrange(1 << 19)
    for ln in pieces:
        cmds.append("mhupd 0 %d %d %d %s" % (b, off, ln, place(rng)))
        off += ln
        if rng.random() < 0.2:      # the caller relocates the live context (struct copy / realloc): the context is plain data
            cmds.append("mhmove 0")
    cmds.append("mhfin 0")
    return cmds


def mh_big_behaviour(rng, alg, fam, total):
    """a stream of `total` bytes (>= 2^29) fed in a few large updates"""
    b = rng.randrange(2, 1 << 20)
    seed = rng.getrandbits(64) if alg == "murmur" else 0
    cmds = ["mhinit 0 %s %s %d %d" % (alg, fam, seed >> 32, seed & 0xFFFFFFFF)]
    first = rng.choice([total, total - 1500, (1 << 29) - 7])
    first = min(first, total)
    off = rng.randrange(1 << 20)
    for ln in [x for x in (first, total - first) if x > 0 or x == total]:
        cmds.append("mhupd 0 %d %d %d e" % (b, off, ln))
        off += ln
    cmds.append("mhfin 0")
    return cmds


def mh_jobs(rng, alg, n_per_fam, fams=None):
    jobs = {}
    for fam in (fams or MH_FAMS):
        bs = [mh_behaviour(rng, alg, fam) for _ in range(n_per_fam)]
        # the two-block tail threshold on both sides, as single updates and byte-at-a-time tails
        for t in (1015, 1016, 2039, 2040):
            bs.append(mh_behaviour(rng, alg, fam, t, [t]))
        bs.append(mh_behaviour(rng, alg, fam, 1000 + 24, [1000, 24]))
        bs.append(mh_behaviour(rng, alg, fam, 1024, [512, 256, 128, 64, 64]))
        jobs["mh-%s-%s" % (alg, fam)] = bs
    return jobs


def rh_mask(rng):
    r = rng.random()
    if r < 0.6:
        bits = rng.randrange(2, 9)
        sh = rng.randrange(0, 32)
        m = ((1 << bits) - 1)
        m = ((m << sh) | (m >> (32 - sh))) & 0xFFFFFFFF if sh else m
    elif r < 0.8:
        m = rng.getrandbits(32) & rng.getrandbits(32) & rng.getrandbits(32)
    else:
        m = 0x0000000F << rng.choice([0, 4, 28])
        m &= 0xFFFFFFFF
    trig = rng.getrandbits(32) & m if rng.random() < 0.6 else 0
    return m, trig


def rh_behaviour(rng, fam, scan, w=None):
    if w is None:
        w = rng.choice([1, 2, 3, 7, 8, 15, 16, 31, 32, 47, 48, rng.randrange(1, 49)])
    b = rng.randrange(2, 1 << 20)
    base = rng.randrange(1 << 18)
    cmds = ["rhinit 0 %s %s %d" % (fam, scan, w), "rhreset 0 %d %d" % (rng.choice([b, 0, 1]), rng.randrange(1 << 18))]
    m, t = rh_mask(rng)
    if rng.random() < 0.2:
        cmds.append("rhmask %d %d" % (rng.choice([0, 1, 2, 3, 16, 100, 1024, 4096, 65536, 1 << 20, (1 << 31) - 1]), rng.randrange(0, 32)))
    total = 0
    for _ in range(rng.randrange(2, 30)):
        r = rng.random()
        if r < 0.35:
            ml = rng.choice([0, 1, max(w - 1, 0), w, w + 1, w + 2, w + 3])
        elif r < 0.8:
            ml = rng.randrange(0, 200)
        else:
            ml = rng.randrange(0, 1500)
        cmds.append("rhrun 0 %d %d %d %d %d %s" % (b, base, ml, m, t, place(rng)))
        if rng.random() < 0.12:
            cmds.append("rhmove 0")
        if rng.random() < 0.08:     # a new stream on the used state: reset without a fresh init
            cmds.append("rhreset 0 %d %d" % (rng.choice([b, 0, 1]), rng.randrange(1 << 18)))
        total += ml
        if total > 6000:
            break
        if rng.random() < 0.1:
            m, t = rh_mask(rng)
    return cmds


def rh_until_calls(rng, n):
    """the three inner scans called directly (they are exported): window, data, mask / trigger"""
    out = []
    for scan in ("base", "00", "04"):
        for _ in range(n):
            w = rng.choice([1, 2, 3, 16, 31, 32, 33, 48, rng.randrange(1, 49)])
            ln = rng.choice([0, 1, 2, 3, 4, 5, 7, 8, 9, 15, 16, 17, 31, 33, rng.randrange(0, 300), rng.randrange(0, 300)])
            m, t = rh_mask(rng)
            if rng.random() < 0.5:      # dense masks: hits everywhere, also on the last byte of the range
                m = rng.choice([1, 3, 7, 0x11])
                t = rng.choice([0, m & rng.getrandbits(8)])
            out.append(["rhuntil %s %d %d %d %d %d %d %s" % (scan, w, rng.randrange(2, 1 << 20), rng.randrange(1 << 18), ln, m, t, place(rng))])
    return out


def rh_jobs(rng, n_per_combo):
    jobs = {}
    for scan in RH_SCANS:
        for fam in RH_FAMS:
            jobs["rh-%s-%s" % (scan, fam)] = [rh_behaviour(rng, fam, scan) for _ in range(n_per_combo)]
    jobs["rh-until-int"] = rh_until_calls(rng, max(6, 2 * n_per_combo))
    return jobs
