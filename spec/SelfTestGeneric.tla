--------------------------- MODULE SelfTestGeneric ---------------------------
(***************************************************************************)
(* The C11-atomics variant of the once-only protocol (fips/                *)
(* self_tests_generic.c, used on non-x86 targets; not built in this        *)
(* sandbox, so this module is model-checked only - C17's quantifier covers *)
(* it, the binding of C17 is to the x86 assembly protocol).                *)
(* Differences from SelfTest: two separate fast-path loads, the runner     *)
(* publishes FAIL as soon as the AES tests fail (the SHA tests then do not *)
(* run), waiters re-read the status after leaving the sleep loop.          *)
(***************************************************************************)
EXTENDS Naturals, FiniteSets, Sequences

CONSTANTS Threads, Calls, AesOutcomes, ShaOutcomes
NOT_DONE == 2
RUNNING == 3
OK == 0
FAIL == 1
VARIABLES status, pc, left, rets, aesOk, shaOk, runs, finished
gvars == << status, pc, left, rets, aesOk, shaOk, runs, finished >>

Init == /\ status = NOT_DONE /\ pc = [t \in Threads |-> "idle"] /\ left = [t \in Threads |-> Calls]
        /\ rets = [t \in Threads |-> << >>] /\ aesOk \in AesOutcomes /\ shaOk \in ShaOutcomes /\ runs = 0 /\ finished = FALSE

Ret(t, v) == rets' = [rets EXCEPT ![t] = Append(@, v)] /\ pc' = [pc EXCEPT ![t] = "idle"]
Go(t, p) == pc' = [pc EXCEPT ![t] = p]
Call(t) == pc[t] = "idle" /\ left[t] > 0 /\ Go(t, "load1") /\ left' = [left EXCEPT ![t] = @ - 1]
           /\ UNCHANGED << status, rets, aesOk, shaOk, runs, finished >>
Load1(t) == pc[t] = "load1" /\ (IF status = OK THEN Ret(t, 0) ELSE Go(t, "load2") /\ UNCHANGED rets)
            /\ UNCHANGED << status, left, aesOk, shaOk, runs, finished >>
Load2(t) == pc[t] = "load2" /\ (IF status = FAIL THEN Ret(t, 1) ELSE Go(t, "cas") /\ UNCHANGED rets)
            /\ UNCHANGED << status, left, aesOk, shaOk, runs, finished >>
CAS(t) == /\ pc[t] = "cas"
          /\ IF status = NOT_DONE THEN status' = RUNNING /\ Go(t, "aes") ELSE status' = status /\ Go(t, "spin")
          /\ UNCHANGED << left, rets, aesOk, shaOk, runs, finished >>
RunAes(t) == /\ pc[t] = "aes" /\ runs' = runs + 1
             /\ IF aesOk THEN Go(t, "sha") /\ UNCHANGED << status, rets, finished >>
                ELSE status' = FAIL /\ finished' = TRUE /\ Ret(t, 1)
             /\ UNCHANGED << left, aesOk, shaOk >>
RunSha(t) == /\ pc[t] = "sha"
             /\ status' = (IF shaOk THEN OK ELSE FAIL) /\ finished' = TRUE /\ Ret(t, IF shaOk THEN 0 ELSE 1)
             /\ UNCHANGED << left, aesOk, shaOk, runs >>
Spin(t) == pc[t] = "spin" /\ Go(t, IF status = RUNNING THEN "spin" ELSE "final")
           /\ UNCHANGED << status, left, rets, aesOk, shaOk, runs, finished >>
Final(t) == pc[t] = "final" /\ Ret(t, IF status = OK THEN 0 ELSE 1)
            /\ UNCHANGED << status, left, aesOk, shaOk, runs, finished >>
Step(t) == Call(t) \/ Load1(t) \/ Load2(t) \/ CAS(t) \/ RunAes(t) \/ RunSha(t) \/ Spin(t) \/ Final(t)
Next == \E t \in Threads : Step(t)
Spec == Init /\ [][Next]_gvars
FairSpec == Spec /\ \A t \in Threads : WF_gvars(Step(t))

Pass == aesOk /\ shaOk
ExactlyOnce == runs <= 1
NoEarlyPass == \A t \in Threads : \A i \in 1..Len(rets[t]) : rets[t][i] = 0 => (finished /\ Pass)
SameVerdict == \A t \in Threads : \A i \in 1..Len(rets[t]) : rets[t][i] = (IF Pass THEN 0 ELSE 1)
WriteOnce == [][(status \in {OK, FAIL}) => (status' = status)]_gvars
AllReturn == <>(\A t \in Threads : pc[t] = "idle" /\ left[t] = 0)
=============================================================================
