#!/usr/bin/env python3
"""add_seeded.py <prop> <mutant dir> <change> <needs> <detected_by>  - copy a confirmed sub-agent mutant into seeded/<prop>-m<k>/"""
import json, os, shutil, sys
prop, src, change, needs, det = sys.argv[1:6]
root = os.path.join(os.path.dirname(os.path.dirname(os.path.abspath(__file__))), "seeded")
k = 1
while os.path.exists(os.path.join(root, "%s-m%d" % (prop, k))):
    k += 1
dst = os.path.join(root, "%s-m%d" % (prop, k))
os.makedirs(dst)
for f in os.listdir(src):
    p = os.path.join(src, f)
    if os.path.isfile(p) and os.path.getsize(p) < 200000 and not f.endswith((".log", ".out", ".o")):
        shutil.copy(p, dst)
json.dump({"property": prop, "change": change, "needs_to_manifest": needs,
           "independent_confirmation": "tools/confirm_mutant.sh in the sub-agent's scratch worktree: clean_demo=0, Makefile.unx -k check same as the clean tree "
                                       "(36 complete, only the pre-existing mh_sha256_test reference miscompile fails), mutated_demo=1",
           "checks_run": "tools/try_mutant.sh patch.diff %s (git apply to /repo, run the check, git checkout)" % prop,
           "detected_by": det, "rebased": None, "round": int(os.environ.get("SEED_ROUND", "2")),
           "origin": "fresh sub-agent given only the property text and a scratch worktree"}, open(os.path.join(dst, "meta.json"), "w"), indent=1)
print(dst)
