SPECIFICATION Spec
CONSTANTS
  Thread = {t1, t2, t3}
  StoreSteps = 1
INVARIANTS NoTornJump BoundAtEnd
PROPERTIES SlotMonotone AllReturn
CHECK_DEADLOCK FALSE
