#!/usr/bin/env python3
"""Call generators for the isal_ wrapper layer (C13 FIPS gate, C16 argument checks)."""
import itertools, random

PTR = set("GHhIOKCVATkEeSXyzYZWMDdRrfmQ")


def table(exe_listing):
    """entries from the driver's own table (gatelist): [(entry, sig, alg)]"""
    return [(e["entry"], e["sig"], e["alg"]) for e in exe_listing]


def valid_vec(sig):
    return ["v"] * len(sig)


OTHER_FAILURE_CODES = [(2, 0), (4, 0), (0, 1), (0, 2), (256, 0), (0, 256), (-1, 0), (-2147483648, 0), (6, -2), (65536, 0)]


def c13_behaviours(entries, rng, thorough=False):
    bs = []
    for entry, sig, alg in entries:
        v = " ".join(valid_vec(sig))
        # verdict already latched: passed / failed
        bs.append(["stinj 0 0", "st 0", "gate %s %s" % (entry, v)])
        bs.append(["stinj 0 0", "st 1", "gate %s %s" % (entry, v), "gate %s %s" % (entry, v)])
        # first call runs the tests: real tests, injected pass, injected AES failure, injected SHA failure (-1, as the
        # real _sha_self_tests reports it), both; a second call follows to see what was latched
        for aes, sha in ((-9, -9), (0, 0), (1, 0), (0, -1), (1, -1)):
            bs.append(["stinj %d %d" % (aes, sha), "st 2", "gate %s %s" % (entry, v), "gate %s %s" % (entry, v)])
        # any non-zero result of a self-test stage is a failure (codes other than the ones today's tests return, rotating per entry)
        k = len(bs)
        for aes, sha in [OTHER_FAILURE_CODES[(k + j) % len(OTHER_FAILURE_CODES)] for j in range(2 if not thorough else len(OTHER_FAILURE_CODES))]:
            bs.append(["stinj %d %d" % (aes, sha), "st 2", "gate %s %s" % (entry, v), "gate %s %s" % (entry, v)])
        # the real self-tests on top of a broken primitive (one of six engines returns a result with one flipped bit; pairs of an
        # AES and a SHA engine too): whatever the cause, the verdict must be "failed"
        k = len(bs)
        kinds = [(1, 0), (2, 0), (3, 0), (4, 0), (5, 0), (6, 0), (1, 4), (2, 5), (3, 6), (1, 6)]
        for f1, f2 in (kinds if thorough else [kinds[k % len(kinds)], kinds[(k + 3) % len(kinds)]]):
            bs.append(["stfault %d %d" % (f1, f2), "stinj -9 -9", "st 2", "gate %s %s" % (entry, v), "gate %s %s" % (entry, v), "stfault 0"])
        # every in-domain value of every scalar argument meets the same gate (zero-length CBC included): latched failure, and a
        # first call whose self-tests fail
        for i, L in enumerate(sig):
            vals = list(SCALAR_VALID.get(L, [])) if L not in PTR else []
            if L == "l" and alg in ("cbcenc", "cbcdec"):
                vals = [0] + vals
            elif L == "l":
                vals = [0, 1, 17]
            for val in (vals if thorough else vals[:2]):
                vec = valid_vec(sig)
                vec[i] = str(val)
                bs.append(["stinj 0 0", "st 1", "gate %s %s" % (entry, " ".join(vec))])
                bs.append(["stinj 1 0", "st 2", "gate %s %s" % (entry, " ".join(vec)), "gate %s %s" % (entry, " ".join(vec))])
        if "xts" in entry:
            ev = " ".join(["e"] + ["v"] * (len(sig) - 1))
            for st in (0, 2):
                bs.append(["stinj 0 0", "st %d" % st, "gate %s %s" % (entry, ev)])
            ev2 = " ".join(["v", "e"] + ["v"] * (len(sig) - 2))
            bs.append(["stinj 0 0", "st 0", "gate %s %s" % (entry, ev2)])
            # distinct keys that agree in all but the last / first byte are valid and must be accepted
            for tok in ("p", "q"):
                bs.append(["stinj 0 0", "st 0", "gate %s %s" % (entry, " ".join([tok] + ["v"] * (len(sig) - 1)))])
    return bs


SCALAR_VALID = {"l": [0, 16, 32, 48, 64], "L": [16, 17, 31, 63, 64], "t": [8, 12, 16], "w": [1, 16, 48], "F": [1, 3], "a": [20, 1],
                "s": [0, 5], "q": [15], "g": [0], "n": [4096, 0], "j": [3, 0, 31]}
SCALAR_BAD = {"l": [15, 17, 1, 63], "L": [15, 0, 1, 16777217, 1 << 32, (1 << 32) + 16, (1 << 32) + 512, 0xFFFFFFFF00000200, (1 << 63) + 64], "t": [0, 4, 15, 17, 32, 1 << 31, (1 << 32) + 16, (1 << 32) + 8], "w": [49, 64, 1 << 31],
              "F": [4, 8, 128]}


def c16_behaviours(entries, rng, thorough=False):
    bs = []
    for entry, sig, alg in entries:
        n = len(sig)
        ptrs = [i for i, L in enumerate(sig) if L in PTR]
        base = valid_vec(sig)
        bs.append(["gate %s %s" % (entry, " ".join(base))])
        if "xts" in entry:
            for tok in ("p", "q"):
                bs.append(["gate %s %s" % (entry, " ".join([tok] + base[1:]))])
        # every non-empty subset of pointer arguments NULL; the others point into an inaccessible page
        subsets = []
        for k in range(1, len(ptrs) + 1):
            subsets += list(itertools.combinations(ptrs, k))
        if not thorough and len(subsets) > 40:
            keep = [s for s in subsets if len(s) == 1] + rng.sample([s for s in subsets if len(s) > 1], 40 - len(ptrs))
            subsets = keep
        for sub in subsets:
            vec = list(base)
            for i in ptrs:
                vec[i] = "n" if i in sub else "x"
            bs.append(["gate %s %s" % (entry, " ".join(vec))])
            if len(sub) == 1:           # the same with all other pointers valid (the *_param_test shape)
                vec2 = list(base)
                vec2[sub[0]] = "n"
                bs.append(["gate %s %s" % (entry, " ".join(vec2))])
        # scalar domains with all pointers valid / all pointers inaccessible for out-of-domain values
        for i, L in enumerate(sig):
            if L in PTR:
                continue
            if alg not in ("cbcenc", "cbcdec") and L == "l":
                continue
            for val in SCALAR_VALID.get(L, []):
                vec = list(base)
                vec[i] = str(val)
                bs.append(["gate %s %s" % (entry, " ".join(vec))])
            for val in SCALAR_BAD.get(L, []):
                vec = list(base)
                vec[i] = str(val)
                bs.append(["gate %s %s" % (entry, " ".join(vec))])
                if L != "F":            # flags are only judged inside the manager, which reads the context
                    vec3 = ["x" if j in ptrs else vec[j] for j in range(n)]
                    bs.append(["gate %s %s" % (entry, " ".join(vec3))])
    return bs
