SPECIFICATION TSpec
CONSTANTS
  Threads <- TraceThreads
  Calls = 2
  Outcomes = {"pass", "fail"}
POSTCONDITION TraceAccepted
CHECK_DEADLOCK FALSE
