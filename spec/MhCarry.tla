------------------------------ MODULE MhCarry ------------------------------
(***************************************************************************)
(* Implementation-shaped model of the multi-hash update / finalize carry   *)
(* (mh_sha1_update_base.c, mh_sha1_finalize_base.c; C05, C10) with a toy   *)
(* block of Blk bytes and a length field of LF bytes.  Bytes are           *)
(* identities: the block function must be called on exactly the next Blk   *)
(* consecutive identities of the padded stream.                            *)
(***************************************************************************)
EXTENDS Naturals, Sequences

CONSTANTS Blk, LF, MaxLen, Lens
VARIABLES total, pb, absorbed, bad, done
mvars == << total, pb, absorbed, bad, done >>
Range(a, n) == [j \in 1..n |-> a + j - 1]
Init == total = 0 /\ pb = << >> /\ absorbed = 0 /\ bad = FALSE /\ done = FALSE

RECURSIVE Blocks(_, _, _)
\* absorb the sequence ids block by block: result << absorbed, bad >>
Blocks(ids, a, bd) == IF Len(ids) < Blk THEN << a, bd >>
                      ELSE Blocks(SubSeq(ids, Blk + 1, Len(ids)), a + Blk, bd \/ SubSeq(ids, 1, Blk) # Range(a, Blk))

Update(len) ==
  /\ ~done /\ total + len <= MaxLen
  /\ LET ids == Range(total, len)
         \* 1. complete the carried partial block first
         fill == IF Len(pb) > 0 THEN (IF len < Blk - Len(pb) THEN len ELSE Blk - Len(pb)) ELSE 0
         pb1 == pb \o SubSeq(ids, 1, fill)
         r1 == IF Len(pb1) = Blk THEN Blocks(pb1, absorbed, bad) ELSE << absorbed, bad >>
         pb2 == IF Len(pb1) = Blk THEN << >> ELSE pb1
         rest == SubSeq(ids, fill + 1, len)
         \* 2. whole blocks straight from the caller's buffer (only when nothing is carried)
         nb == IF pb2 = << >> THEN Len(rest) \div Blk ELSE 0
         r2 == Blocks(SubSeq(rest, 1, nb * Blk), r1[1], r1[2])
         \* 3. carry the remainder
         pb3 == pb2 \o SubSeq(rest, nb * Blk + 1, Len(rest))
     IN /\ total' = total + len /\ pb' = pb3 /\ absorbed' = r2[1] /\ bad' = r2[2]
  /\ UNCHANGED done

PadLen == 1 + ((Blk - ((total + 1 + LF) % Blk)) % Blk) + LF
Finalize ==
  /\ ~done /\ done' = TRUE
  /\ LET tail == pb \o Range(total, PadLen)       \* 0x80, zeros, length: one block, or two iff Len(pb) > Blk - LF - 1
         r == Blocks(tail, absorbed, bad)
     IN /\ absorbed' = r[1]
        /\ bad' = (r[2] \/ ((Len(tail) % Blk) # 0))
  /\ UNCHANGED << total, pb >>
Next == (\E n \in Lens : Update(n)) \/ Finalize
Spec == Init /\ [][Next]_mvars

InOrder == ~bad
CarryIsResidue == Len(pb) = total % Blk /\ (done \/ pb = Range(total - Len(pb), Len(pb)))
AbsorbedIsFloor == ~done => absorbed = total - Len(pb)
WholeAtEnd == done => absorbed = total + PadLen
TwoTailBlocksIff == done => ((absorbed - (total - Len(pb))) \div Blk = (IF Len(pb) > Blk - LF - 1 THEN 2 ELSE 1))
=============================================================================
