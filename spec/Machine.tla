------------------------------ MODULE Machine ------------------------------
(***************************************************************************)
(* Machine-level contracts, phrased over the observation record that the   *)
(* call trampoline (harness/vcall.S + core.c) attaches to every event:     *)
(*   fault  signal number of a fault inside the call (0 = none), fw = where *)
(*   cs     bit mask of callee-saved registers whose value changed          *)
(*          (rbx rbp r12 r13 r14 r15), rsp = stack pointer delta            *)
(*   df     direction flag at return; mx / fcw = MXCSR / x87 CW unchanged   *)
(*   above  canary words above the callee's frame intact                    *)
(*   can    canaries around every registered caller buffer intact           *)
(*   inp    every registered input buffer byte-identical                    *)
(*   st     number of changed bytes in the library's writable statics;      *)
(*          stx = those not belonging to a dispatch binding                 *)
(* The spec cannot see registers; it states the contract and every trace    *)
(* action of every trace module evaluates it on every event.                *)
(***************************************************************************)
EXTENDS Naturals

\* C19: SysV callee-saved state
ABIOk(o) == o.fault # 0 \/ (o.cs = 0 /\ o.rsp = 0 /\ o.df = 0 /\ o.mx = 1 /\ o.fcw = 1 /\ o.above = 1)
\* C08: no access outside caller ranges, inputs unmodified
NoFault(o) == o.fault = 0
MemOk(o) == o.fault = 0 /\ o.can = 1 /\ o.inp = 1
\* C18: writable statics only where the action is allowed to (first-call binding, self-test verdict)
\* (stx = changed bytes that are not part of a word now holding the address of a library function)
StaticOk(o, mayBind) == o.st = 0 \/ (mayBind /\ o.stx = 0)
=============================================================================
