---------------------------- MODULE DispatchLadder ----------------------------
(***************************************************************************)
(* IMPLEMENTATION-SHAPED model of the resolver macros of                   *)
(* include/multibinary.asm (and the private copies in sha512_multibinary   *)
(* and rolling_hash2_multibinary): for a configuration cfg (set of feature  *)
(* names, see Dispatch) each ladder returns the 1-based position of the     *)
(* candidate it stores into <entry>_dispatched.  The table                 *)
(* entry -> (macro, candidate families) is extracted from the               *)
(* *_multibinary.asm sources at check time and passed in as JSON.           *)
(* Used for (a) an exhaustive TLC run: for every consistent configuration   *)
(* and every entry the ladder's choice satisfies Dispatch!BindingOk and the *)
(* shared-object groups agree; (b) drift detection: the observed binding of *)
(* the real resolver equals the ladder's prediction.                        *)
(***************************************************************************)
EXTENDS Dispatch

XY(cfg) == {"x_sse", "x_avx"} \subseteq cfg
ZMM(cfg) == ZmmState \subseteq cfg
AvxOs(cfg) == {"avx", "osxsave"} \subseteq cfg

Ladder(macro, cfg) ==
  CASE macro = "init2" -> 1
    [] macro = "init" ->                                   \* (sse, avx, avx2)
         IF ~AvxOs(cfg) \/ ~XY(cfg) THEN 1 ELSE IF "avx2" \in cfg THEN 3 ELSE 2
    [] macro = "init5" ->                                  \* (base, sse, avx, avx2)
         IF ~AvxOs(cfg) THEN (IF "sse4_1" \in cfg THEN 2 ELSE 1)
         ELSE IF ~XY(cfg) THEN 2 ELSE IF "avx2" \in cfg THEN 4 ELSE 3
    [] macro = "rolling" ->                                \* (base, 00, 04)
         IF ~AvxOs(cfg) THEN (IF "sse4_1" \in cfg THEN 2 ELSE 1)
         ELSE IF ~XY(cfg) THEN 2 ELSE IF "avx2" \in cfg THEN 3 ELSE 2
    [] macro \in {"init6", "init6_avoton"} ->              \* (base, sse, avx, avx2, avx512 [, sb_sse4 on Avoton])
         IF "sse4_1" \notin cfg THEN 1
         ELSE IF macro = "init6_avoton" /\ "avoton" \in cfg THEN 6
         ELSE IF "osxsave" \notin cfg \/ ~XY(cfg) \/ "avx" \notin cfg THEN 2
         ELSE IF "avx2" \notin cfg THEN 3
         ELSE IF ~ZMM(cfg) THEN 4
         ELSE IF G1 \subseteq cfg THEN 5 ELSE 4
    [] macro = "init7" ->                                  \* (base, sse, avx, avx2, avx512, avx512 + group 2)
         IF "sse4_2" \notin cfg THEN 1
         ELSE IF "osxsave" \notin cfg \/ ~XY(cfg) \/ "avx" \notin cfg THEN 2
         ELSE IF "avx2" \notin cfg THEN 3
         ELSE IF ~ZMM(cfg) \/ ~(G1 \subseteq cfg) THEN 4
         ELSE IF G2 \subseteq cfg THEN 6 ELSE 5
    [] macro = "base_to_avx512_shani" ->                   \* (base, sse, avx, avx2, avx512, sse + SHA-NI, avx512 + SHA-NI)
         IF "sse4_2" \notin cfg THEN 1
         ELSE IF "osxsave" \notin cfg \/ ~XY(cfg) \/ "avx" \notin cfg THEN (IF "sha" \in cfg THEN 6 ELSE 2)
         ELSE IF "avx2" \notin cfg THEN 3
         ELSE IF ~ZMM(cfg) \/ ~(G1 \subseteq cfg) THEN 4
         ELSE IF "sha" \in cfg THEN 7 ELSE 5
KnownMacros == {"init2", "init", "init5", "rolling", "init6", "init6_avoton", "init7", "base_to_avx512_shani"}
=============================================================================
