------------------------------ MODULE HashStd ------------------------------
(***************************************************************************)
(* The standard hash functions as the library must compute them (C01,      *)
(* C15): Merkle-Damgard iteration of Prim!Compress over the message padded *)
(* per FIPS 180-4 5.1 (SHA-1/256: 64-byte blocks, 64-bit big-endian bit    *)
(* length; SHA-512: 128-byte blocks, 128-bit length), RFC 1321 (MD5:       *)
(* little-endian length) and GB/T 32905 (SM3: as SHA-256).                 *)
(* Digests are byte sequences in the standard's output order.              *)
(***************************************************************************)
EXTENDS Naturals, Sequences, SequencesExt, Prim

Algs == {"sha1", "sha256", "sha512", "md5", "sm3"}
BlockSize(alg) == IF alg = "sha512" THEN 128 ELSE 64
LenField(alg) == IF alg = "sha512" THEN 16 ELSE 8
DigestLen(alg) == CASE alg = "sha1" -> 20 [] alg = "sha256" -> 32 [] alg = "sha512" -> 64
                    [] alg = "md5" -> 16 [] alg = "sm3" -> 32

IV(alg) == FromHex(
  CASE alg = "sha1"   -> "67452301efcdab8998badcfe10325476c3d2e1f0"
    [] alg = "sha256" -> "6a09e667bb67ae853c6ef372a54ff53a510e527f9b05688c1f83d9ab5be0cd19"
    [] alg = "sha512" -> "6a09e667f3bcc908bb67ae8584caa73b3c6ef372fe94f82ba54ff53a5f1d36f1510e527fade682d19b05688c2b3e6c1f1f83d9abfb41bd6b5be0cd19137e2179"
    [] alg = "md5"    -> "0123456789abcdeffedcba9876543210"
    [] alg = "sm3"    -> "7380166f4914b2b9172442d7da8a0600a96f30bc163138aae38dee4db0fb0e4e")

\* n as k big-endian base-256 digits (n < 2^31 here; long streams go through Prim!DigestOfSegs)
RECURSIVE BE(_, _)
BE(n, k) == IF k = 0 THEN << >> ELSE Append(BE(n \div 256, k - 1), n % 256)


\* number of zero bytes between the 0x80 marker and the length field
ZeroPad(alg, n) == LET B == BlockSize(alg)  L == LenField(alg)
                   IN (B - ((n + 1 + L) % B)) % B
\* bit length = 8n written in L bytes: the byte count shifted by 3, i.e. BE(n, L) * 8
BitLen(alg, n) ==
  LET L == LenField(alg)
      hi == BE(n \div (2 ^ 21), L - 3)          \* bits 24.. of 8n  (n < 2^31)
      lo == BE((n % (2 ^ 21)) * 8, 3)
      be == hi \o lo
  IN IF alg = "md5" THEN Reverse(be) ELSE be
Pad(alg, n) == << 128 >> \o [i \in 1..ZeroPad(alg, n) |-> 0] \o BitLen(alg, n)

\* One or two padding blocks?  (the library's hash_pad decides this from total_len)
PadBlocks(alg, n) == ((n % BlockSize(alg)) + Len(Pad(alg, n))) \div BlockSize(alg)

Digest(alg, msg) ==
  LET B == BlockSize(alg)
      m == msg \o Pad(alg, Len(msg))
      nb == Len(m) \div B
  IN FoldLeft(LAMBDA st, i : Compress(alg, st, SubSeq(m, (i - 1) * B + 1, i * B)),
              IV(alg), [i \in 1..nb |-> i])
=============================================================================
