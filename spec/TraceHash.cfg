SPECIFICATION TSpec
CONSTANTS
  Ctx <- TraceCtx
  MaxHeld = 32
  Segs <- TraceSegs
  SegLen <- TraceSegLen
POSTCONDITION TraceAccepted
CHECK_DEADLOCK FALSE
