------------------------------ MODULE TraceTwin ------------------------------
(***************************************************************************)
(* C20: results depend on declared inputs only.  Two executions of the     *)
(* same behaviour that differ only in the hidden inputs (register, flag,   *)
(* vector and mask garbage at entry, dead-stack contents, output-buffer    *)
(* prefill, bytes of context / manager / key-data objects the API has not  *)
(* initialised) are recorded as TRACE and TRACE2.  Each is validated       *)
(* against the deterministic specification of its domain by that domain's  *)
(* trace spec; this module states the twin property itself: event by       *)
(* event, every observable field (everything except the trampoline's own   *)
(* observation record and dumps) is identical.                             *)
(***************************************************************************)
EXTENDS Naturals, Sequences, TLC, TLCExt, Json, IOUtils

ASSUME TLCSet(10, ndJsonDeserialize(IOEnv.TRACE)) /\ TLCSet(11, ndJsonDeserialize(IOEnv.TRACE2))
A == TLCGet(10)
B == TLCGet(11)
\* obs / zmm / dstk are the trampoline's own observations; chg / echg / mchg are the hash driver's "did these bytes change across
\* the call" flags, computed against the pre-call content, which IS hidden input (garbage in not yet initialised fields): a field
\* written with the value its garbage happened to hold reads as "unchanged" in one execution only
Hidden == {"obs", "zmm", "dstk", "chg", "echg", "mchg"}
Proj(e) == [k \in (DOMAIN e) \ Hidden |-> e[k]]

VARIABLES l, viol
Init == l = 1 /\ viol = << >> /\ TLCSet(1, << >>) /\ TLCSet(2, 1)
Next ==
  /\ l <= Len(A)
  /\ l' = l + 1
  /\ viol' = IF Len(viol) < 50 /\ (l > Len(B) \/ Proj(A[l]) # Proj(B[l]))
             THEN Append(viol, [p |-> "C20", what |-> "result-depends-on-hidden-input", l |-> l,
                                info |-> IF l > Len(B) THEN << "second execution ended early" >>
                                         ELSE << A[l].e, {k \in DOMAIN Proj(A[l]) : k \notin DOMAIN B[l] \/ A[l][k] # B[l][k]} >>])
             ELSE viol
  /\ TLCSet(1, viol') /\ TLCSet(2, l')
Spec == Init /\ [][Next]_<< l, viol >>
TraceAccepted ==
  /\ JsonSerialize(IOEnv.RESULT, [consumed |-> TLCGet(2) - 1, events |-> Len(A), viol |-> TLCGet(1), second |-> Len(B)])
  /\ TLCGet(2) = Len(A) + 1
=============================================================================
