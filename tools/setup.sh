#!/bin/sh
# setup_cmd: offline, from files on disk only. Compiles the TLC primitive overrides and runs the
# self-test of the trusted base (published vectors + TLA+ definitions + JDK agreement).
set -e
cd "$(dirname "$0")/.."
mkdir -p overrides/classes out evidence
python3 - <<'PY'
import sys
sys.path.insert(0, "tools")
import verif
verif.ensure_overrides()
rc, out, dt = verif.tlc("PrimSelfTest", timeout=600)
if rc != 0:
    print(out[-3000:])
    sys.exit("PrimSelfTest failed")
print("PrimSelfTest ok (%.1fs)" % dt)
rc, out, dt = verif.tlc("AesModesTest", timeout=600)
if rc != 0:
    print(out[-3000:])
    sys.exit("AesModesTest failed")
print("AesModesTest ok (%.1fs)" % dt)
PY
