SPECIFICATION Spec
CONSTANTS
  Ctx = {c1, c2}
  NLanes = 2
  B = 4
  P = 1
  SegLens = {1, 4, 5}
  MaxTotal = 6
  NoCtx = NoCtx
  SbThreshold = 1
  TrackStream = TRUE
CONSTRAINT Bounded
INVARIANTS InOrder CompleteIsWhole TotalIsSum PartialLenOk LanePartition OwnersAreHeld ReturnedNotProcessing FlushNullLeavesEmpty NeverFull ReturnedState
PROPERTIES Refines FlushNullIffEmpty
CHECK_DEADLOCK FALSE
