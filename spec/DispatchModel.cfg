SPECIFICATION Spec
INVARIANTS AllConsistent LadderBindsOnlyExecutableCode SharedObjectsOneFamily
CHECK_DEADLOCK FALSE
