SPECIFICATION Spec
CONSTANTS
  W = 2
  Alphabet = {0, 1, 2}
  StreamLen = 6
  Masks = {1, 3}
  Variant = "code"
INVARIANTS ImplEqualsDefinition HashIsFunctionOfWindow WindowIsLastBytes
CHECK_DEADLOCK FALSE
