#!/usr/bin/env python3
"""Call-space generators for the AES driver (harness/drv_aes.c).

The call spaces follow the loop structure of the assembly families (DESIGN.md C02-C04, C07):
every block count and residue that selects a distinct tail, the counter-wrap region, both key
sizes, both directions, in place / out of place, alignment offsets, regular / non-temporal."""
import random

GCM_FAMS = ["sse", "avx_gen2", "avx_gen4", "vaes_avx512"]
GCM_API = ["isal", "legacy"]
XTS_FAMS = ["sse", "avx", "vaes"]
CBC_ENC = ["x4", "x8"]
CBC_DEC = ["sse", "avx", "vaes_avx512"]
KEXP_FAMS = ["sse", "avx"]


def place(rng, nt=False):
    if nt:
        return "g" if rng.random() < 0.08 else "a0"
    r = rng.random()
    if r < 0.35:
        return "e"
    if r < 0.5:
        return "s"
    if r < 0.56:
        return "g"          # straddling a multiple of 4 GiB (64-byte aligned start)
    return "a%d" % rng.choice([0, 1, 8, 15, 16, 31, 63, rng.randrange(64)])


def out_place(rng, inpl):
    """output placement; out of place, one call in ten puts the output right behind ("j") or right in front of ("J") the input"""
    if not inpl and rng.random() < 0.1:
        return rng.choice(["j", "J"])
    return place(rng)


def bufid(rng):
    return rng.choice([rng.randrange(2, 1 << 20)] * 8 + [0, 1])


def gcm_len_classes():
    ls = list(range(0, 1072))
    for k in (95, 96, 97, 127, 128, 129, 511, 512, 513):
        ls += [16 * k + r for r in (0, 1, 15)]
    for k in range(240, 265):
        ls += [16 * k + r for r in (0, 1, 8, 15)]
    ls += [8192 + r for r in (0, 1, 15, 16, 17)]
    return ls


AAD_SMALL = list(range(0, 49))
AAD_MID = [63, 64, 65, 127, 128, 129, 255, 256, 257]
# the AAD hashing loops work in 16 / 32 / 48-block strides with a tail: residues on both sides of every stride boundary
AAD_LARGE = [272, 288, 300, 304, 305, 320, 321, 400, 511, 512, 513, 520, 767, 768, 769, 800, 1023, 1024, 1025, 1300, 2048, 2049, 4097]


def aad_lens():
    return AAD_SMALL + AAD_MID + AAD_LARGE


def pick_aad(rng):
    r = rng.random()
    return rng.choice(AAD_SMALL) if r < 0.5 else rng.choice(AAD_MID) if r < 0.7 else rng.choice(AAD_LARGE)


def gcm_call(rng, fam, bits, dirn, nt, ln, alen, tlen, inpl=None, pin=None):
    if inpl is None:
        inpl = 1 if (rng.random() < 0.3 and not nt and pin is None) else 0
    if pin is None:
        pin = place(rng, nt)
    elif nt and pin == "e":
        pin = "s"           # the non-temporal variants require 64-byte aligned data: only the page start qualifies
    pout = place(rng, nt)
    return "gcm %s %d %s %d %d %d %d %d %d %d %d %d %d %d %d %d %s %s %s %s %s" % (
        fam, bits, dirn, nt, bufid(rng), rng.randrange(1 << 20), bufid(rng), rng.randrange(1 << 20),
        bufid(rng), rng.randrange(1 << 20), alen, bufid(rng), rng.randrange(1 << 20), ln, tlen, inpl,
        pin, pout, place(rng), place(rng), place(rng))


def gcm_oneshot_behaviours(rng, n_per_combo, fams=None, full=False):
    """returns {job name: [behaviours]} ; one behaviour = one call (stateless)"""
    lens = gcm_len_classes()
    jobs = {}
    for fam in (fams or (GCM_FAMS + GCM_API)):
        for nt in (0, 1):
            for bits in (128, 256):
                for dirn in ("enc", "dec"):
                    name = "gcm-%s-%d-%s-%s" % (fam, bits, dirn, "nt" if nt else "reg")
                    if full:
                        picks = lens
                    else:
                        # stratified sample: exact block multiples up to the by-8 / by-16 loop entries, the dense small range,
                        # the counter-wrap region (240..264 blocks), loop-boundary block counts, 8 KiB
                        wrap = [16 * k + r for k in range(240, 265) for r in (0, 1, 8, 15)]
                        bnd = [16 * k + r for k in (95, 96, 97, 127, 128, 129, 511, 512, 513) for r in (0, 1, 15)]
                        n = max(1, n_per_combo // 14)
                        picks = ([16 * rng.randrange(0, 17) for _ in range(3 * n)] + [rng.randrange(0, 1072) for _ in range(4 * n)] +
                                 [rng.choice(wrap) for _ in range(5 * n)] + [rng.choice(bnd) for _ in range(n)] +
                                 [8192 + rng.choice([0, 1, 15, 16, 17]) for _ in range(n)])
                    bs = []
                    for ln in picks:
                        bs.append([gcm_call(rng, fam, bits, dirn, nt, ln, pick_aad(rng), rng.choice([8, 12, 16]))])
                    # sub-block and one-block messages with the input flush against an inaccessible page on either side
                    # (partial-block loads may reach neither before the first nor past the last input byte)
                    tiny = [(ln, pl) for ln in range(1, 18) for pl in ("s", "e")]
                    for ln, pl in (tiny if full else rng.sample(tiny, max(6, n_per_combo // 4))):
                        bs.append([gcm_call(rng, fam, bits, dirn, nt, ln, pick_aad(rng), rng.choice([8, 12, 16]), pin=pl)])
                    jobs[name] = bs
    return jobs


def gcm_stream_behaviour(rng, fam, bits, dirn, nt, pieces, alen=None, tlen=None):
    sid = 0
    kb, ko, ib, io, ab, ao = bufid(rng), rng.randrange(1 << 20), bufid(rng), rng.randrange(1 << 20), bufid(rng), rng.randrange(1 << 20)
    if alen is None:
        alen = pick_aad(rng)
    cmds = ["gcmi %d %s %d %d %d %d %d %d %d %d %s %s" % (sid, fam, bits, kb, ko, ib, io, ab, ao, alen, place(rng), place(rng))]
    db = bufid(rng)
    off = rng.randrange(1 << 19)
    for ln in pieces:
        inpl = 1 if (rng.random() < 0.3 and not nt) else 0
        cmds.append("gcmu %d %s %d %d %d %d %d %s %s" % (sid, dirn, nt, db, off, ln, inpl, place(rng, nt), place(rng, nt)))
        off += ln
        if rng.random() < 0.15:     # the caller relocates the session's context between calls
            cmds.append("gcmmove %d" % sid)
    cmds.append("gcmf %d %s %d %s" % (sid, dirn, tlen or rng.choice([8, 12, 16]), place(rng)))
    return cmds


def gcm_stream_pieces(rng, nt):
    if nt:
        k = rng.randrange(1, 5)
        ps = [64 * rng.choice([0, 1, 1, 2, 3, 4, 8, 16, 33]) for _ in range(k)]
        ps.append(rng.choice([0, 1, 15, 16, 17, 63, 64, 65, 100, 200, 1000]))
        return ps
    r = rng.random()
    if r < 0.45:   # the 16 x (0..16, 17, 32, 127, 128, 129) carry table: residue r then fill f
        res = rng.randrange(0, 16)
        f = rng.choice(list(range(0, 17)) + [17, 32, 127, 128, 129, 255, 256, 257])
        pre = rng.choice([0, 16, 128, 256]) + res
        ps = [pre, f]
        if rng.random() < 0.5:
            ps.append(rng.choice([0, 1, 5, 16, 33, 128, 300]))
        return ps
    if r < 0.7:    # stay below a block for several calls, complete it exactly, then cross into the main loop
        ps = []
        tot = 0
        while tot < 16 and len(ps) < 8:
            p = rng.choice([0, 1, 2, 3, 5])
            ps.append(p)
            tot += p
        ps.append((16 - tot % 16) % 16)
        ps.append(rng.choice([128, 129, 255, 256, 512, 513, 1024 + 7]))
        return ps
    if r < 0.85:   # counter-wrap region of the fast paths (low counter byte wraps after ~255 blocks)
        a = 16 * rng.randrange(230, 262) + rng.choice([0, 0, 3, 15])
        return [rng.choice([0, 16, 100]), a, rng.choice([16, 100, 256, 300, 513, 1000]), rng.choice([0, 7])]
    k = rng.randrange(1, 9)
    return [rng.choice([0, 1, 7, 15, 16, 17, 31, 32, 33, 64, 100, 127, 128, 129, 135, 200, 255, 256, 300, 511, 512, 1000, 2048 + rng.randrange(64)])
            for _ in range(k)]


def gcm_wrap_pieces(rng, n):
    """n full blocks consumed before a long update: the low byte of the counter is (n + 1) mod 256 when
    the long update starts, so n = 224..272 walks every fast-path / overflow-path decision of the by-8,
    by-16 and by-32 loops (they compare the low counter byte with 256 - k)."""
    first = rng.choice([0, 16, 16 * rng.randrange(0, n + 1)])
    ps = [first, 16 * n - first] if first else [16 * n]
    ps.append(rng.choice([257, 300, 513, 777, 1000, 2048]))
    ps.append(rng.choice([0, 7, 16, 100]))
    return ps


def gcm_stream_jobs(rng, n_per_combo, fams=None):
    jobs = {}
    for fam in (fams or (GCM_FAMS + GCM_API)):
        combos = [(b, d) for b in (128, 256) for d in ("enc", "dec")]
        jobs["gcms-%s-wrap" % fam] = [gcm_stream_behaviour(rng, fam, combos[n % 4][0], combos[n % 4][1], 0, gcm_wrap_pieces(rng, n))
                                      for n in range(224, 273)]
        for nt in (0, 1):
            for bits in (128, 256):
                for dirn in ("enc", "dec"):
                    name = "gcms-%s-%d-%s-%s" % (fam, bits, dirn, "nt" if nt else "reg")
                    jobs[name] = [gcm_stream_behaviour(rng, fam, bits, dirn, nt, gcm_stream_pieces(rng, nt)) for _ in range(n_per_combo)]
    return jobs


def xts_len_classes():
    ls = list(range(16, 16 * 66))
    ls += [4096, 4096 + 1, 4096 + 7, 4096 + 15, 65536, 65536 + 8]
    return ls


def pick_xts_len(rng):
    """stratified: m full blocks (every unrolled tail 1..9 of the by-8 loops) with and without a stolen remainder,
    then the longer units that enter the by-8 / by-16 main loops, then sector sizes"""
    r = rng.random()
    if r < 0.45:
        m = rng.randrange(1, 10)
        return 16 * m + (0 if rng.random() < 0.5 else rng.randrange(1, 16))
    if r < 0.9:
        return rng.randrange(144, 16 * 66)
    return rng.choice([4096, 4096 + 1, 4096 + 7, 4096 + 15, 65536, 65536 + 8])


def xts_call(rng, fam, bits, dirn, exp, ln):
    inpl = 1 if rng.random() < 0.3 else 0
    k1b = rng.randrange(2, 1 << 20)
    k2b = rng.randrange(2, 1 << 20)
    pk = (lambda: rng.choice(["a0", "a1", "a8", "a15", "e", "s"]))
    return "xts %s %d %s %d %d %d %d %d %d %d %d %d %d %d %s %s %s %s %s" % (
        fam, bits, dirn, exp, k1b, rng.randrange(1 << 20), k2b, rng.randrange(1 << 20), bufid(rng), rng.randrange(1 << 20),
        bufid(rng), rng.randrange(1 << 20), ln, inpl, place(rng), out_place(rng, inpl), pk(), pk(), pk())


def xts_jobs(rng, n_per_combo, fams=None, short=True, full=False, maxlen=False):
    lens = xts_len_classes()
    jobs = {}
    for fam in (fams or (XTS_FAMS + ["isal", "legacy"])):
        for bits in (128, 256):
            for dirn in ("enc", "dec"):
                for exp in (0, 1):
                    name = "xts-%s-%d-%s-%s" % (fam, bits, dirn, "exp" if exp else "raw")
                    picks = lens if full else [pick_xts_len(rng) for _ in range(n_per_combo)]
                    bs = [[xts_call(rng, fam, bits, dirn, exp, ln)] for ln in picks]
                    if short:
                        bs += [[xts_call(rng, fam, bits, dirn, exp, ln)] for ln in rng.sample(range(0, 16), 3)]
                    if maxlen:      # the largest legal data unit (ISAL_AES_XTS_MAX_LEN = 2^24 bytes) and its neighbours
                        bs += [[xts_call(rng, fam, bits, dirn, exp, ln)] for ln in ((1 << 24), rng.choice([(1 << 24) - 1, (1 << 24) - 16]))]
                    jobs[name] = bs
    return jobs


def cbc_call(rng, fam, bits, dirn, ln):
    inpl = 1 if rng.random() < 0.4 else 0
    return "cbc %s %d %s %d %d %d %d %d %d %d %d %s %s" % (
        fam, bits, dirn, rng.randrange(2, 1 << 20), rng.randrange(1 << 20), bufid(rng), rng.randrange(1 << 20),
        bufid(rng), rng.randrange(1 << 20), ln, inpl, place(rng), out_place(rng, inpl))


def cbc_lens():
    ls = [16 * k for k in range(1, 41)]
    for k in (1, 2, 4):
        ls += [16 * (64 * k - 1), 16 * 64 * k, 16 * (64 * k + 1)]
    return ls


def cbc_jobs(rng, n_per_combo, full=False):
    jobs = {}
    for dirn, fams in (("enc", CBC_ENC), ("dec", CBC_DEC)):
        for fam in fams + ["isal", "legacy"]:
            for bits in (128, 192, 256):
                name = "cbc-%s-%d-%s" % (fam, bits, dirn)
                picks = cbc_lens() if full else [rng.choice(cbc_lens()) for _ in range(n_per_combo)]
                jobs[name] = [[cbc_call(rng, fam, bits, dirn, ln)] for ln in picks]
    return jobs


def kexp_jobs(rng, n):
    jobs = {}
    for fam in KEXP_FAMS + ["isal", "legacy", "precomp"]:
        for bits in (128, 192, 256):
            jobs["kexp-%s-%d" % (fam, bits)] = [["kexp %s %d %d %d %s" % (fam, bits, bufid(rng), rng.randrange(1 << 20),
                                                                         rng.choice(["e", "s", "a1", "a0", "a7"]))] for _ in range(n)]
    return jobs
