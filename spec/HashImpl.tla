------------------------------ MODULE HashImpl ------------------------------
(***************************************************************************)
(* IMPLEMENTATION-SHAPED model of the multi-buffer hash context layer and  *)
(* lane scheduler (sha256_ctx_avx2.c + sha256_mb_mgr_submit/flush_avx2.asm *)
(* and their siblings), small enough for TLC to explore every history.     *)
(*                                                                         *)
(* Bytes are not modelled by value but by IDENTITY: byte k of a context's  *)
(* stream since FIRST has identity k, the j-th padding byte of a stream of *)
(* total T has identity T + j.  A 4-byte "block" handed to the kernel is   *)
(* therefore correct exactly when its identities are the next B            *)
(* consecutive ones - which is the model-level meaning of "the digest      *)
(* equals the standard hash of the concatenation, in order" (C01), of the  *)
(* one-or-two padding blocks decision (hash_pad) and of the running total  *)
(* (C15).  Ghost variables record what has been absorbed.                  *)
(*                                                                         *)
(* State is one record S:                                                  *)
(*   per context: status (subset of {"P","L","C"} = PROCESSING, LAST,      *)
(*     COMPLETE bits), tot, pb (partial block buffer as a sequence of      *)
(*     identities), inc = <<offset, length>> of the unconsumed caller      *)
(*     buffer, job = <<source, offset or identities, blocks>>, err         *)
(*   manager: owner[lane], lens[lane] (blocks left), cur[lane] (blocks     *)
(*     done), unused (free-lane stack)                                     *)
(*   ghosts: absorbed, bad, strm, lastf, fresh                             *)
(* Each public call (CtxSubmit, CtxFlush) is one action; its body follows  *)
(* the code: rejection tests, partial-buffer fill, *_ctx_mgr_resubmit      *)
(* loop, manager submit = take a lane / run min(lens) / retire the lowest  *)
(* finished lane, flush = run min over the live lanes.                     *)
(* TLC checks the invariants below and that every step is a step of the    *)
(* verdict spec HashAPI (refinement).                                      *)
(***************************************************************************)
EXTENDS Naturals, Integers, Sequences, FiniteSets, TLC

CONSTANTS Ctx, NLanes, B, P, SegLens, MaxTotal, NoCtx,
          SbThreshold,  \* flush with at most this many live lanes uses the single-buffer kernel: only the minimum lane advances
          TrackStream   \* keep the per-context list of segments (needed only for the refinement check; a history variable)

Lanes == 0..(NLanes - 1)
VARIABLE S
NONE == NoCtx

PadLen(t) == 1 + ((B - ((t + 1 + P) % B)) % B) + P       \* 0x80, zeros, length field
PadIds(t) == [j \in 1..PadLen(t) |-> t + j - 1]
Range(a, n) == [j \in 1..n |-> a + j - 1]

InitCtx == [status |-> {"C"}, tot |-> 0, pb |-> << >>, inc |-> << 0, 0 >>, job |-> << "none", << >>, 0 >>, err |-> 0,
            absorbed |-> 0, bad |-> FALSE, strm |-> << >>, ssum |-> 0, lastf |-> FALSE, fresh |-> TRUE]
Init == S = [ctx |-> [c \in Ctx |-> InitCtx],
             owner |-> [l \in Lanes |-> NONE], lens |-> [l \in Lanes |-> 0], cur |-> [l \in Lanes |-> 0],
             unused |-> [i \in 1..NLanes |-> i - 1]]

\* ---------------------------------------------------------------- kernel: lane l absorbs k blocks of its job
JobIds(j, blk) == IF j[1] = "user" THEN Range(j[2] + blk * B, B) ELSE SubSeq(j[2], blk * B + 1, (blk + 1) * B)
RECURSIVE Absorb(_, _, _, _)
Absorb(cx, from, k, j) ==      \* context record cx absorbs blocks from..from+k-1 of job j
  IF k = 0 THEN cx
  ELSE LET ids == JobIds(j, from)
           ok == ids = Range(cx.absorbed, B)
       IN Absorb([cx EXCEPT !.absorbed = @ + B, !.bad = @ \/ ~ok], from + 1, k - 1, j)

Occupied(s) == {l \in Lanes : s.owner[l] # NONE}
MinLen(s) == CHOOSE m \in {s.lens[l] : l \in Occupied(s)} : \A l \in Occupied(s) : m <= s.lens[l]
\* the packed (len, lane) minimum: the lowest lane among those with the minimum length
MinLane(s) == CHOOSE l \in Occupied(s) : s.lens[l] = MinLen(s) /\ \A k \in Occupied(s) : s.lens[k] = MinLen(s) => l <= k

\* run the N-lane kernel for min(lens) blocks on every occupied lane, retire the minimum lane, return its context
RunMin(s) ==
  LET m == MinLen(s)
      l0 == MinLane(s)
      c0 == s.owner[l0]
      ctx2 == [c \in Ctx |-> IF \E l \in Occupied(s) : s.owner[l] = c
                             THEN LET l == CHOOSE x \in Occupied(s) : s.owner[x] = c
                                  IN Absorb(s.ctx[c], s.cur[l], m, s.ctx[c].job)
                             ELSE s.ctx[c]]
      s2 == [s EXCEPT !.ctx = ctx2,
                      !.lens = [l \in Lanes |-> IF l \in Occupied(s) THEN s.lens[l] - m ELSE s.lens[l]],
                      !.cur = [l \in Lanes |-> IF l \in Occupied(s) THEN s.cur[l] + m ELSE s.cur[l]]]
  \* (fields of a retired lane are dead: normalised so that they do not split states)
  IN << [s2 EXCEPT !.owner[l0] = NONE, !.lens[l0] = 0, !.cur[l0] = 0, !.unused = << l0 >> \o @], c0 >>

\* *_mb_mgr_submit: take the next free lane; only when that was the last one, run and retire
MgrSubmit(s, c) ==
  LET lane == Head(s.unused)
      s1 == [s EXCEPT !.unused = Tail(@), !.owner[lane] = c, !.lens[lane] = s.ctx[c].job[3], !.cur[lane] = 0]
  IN IF s1.unused # << >> THEN << s1, NONE >> ELSE RunMin(s1)

\* single-buffer path of flush (sha1/sha256_ni_x1, *_opt_x1): the minimum lane is finished on its own, the others wait
RunSingle(s) ==
  LET l0 == MinLane(s)
      c0 == s.owner[l0]
      cx == Absorb(s.ctx[c0], s.cur[l0], s.lens[l0], s.ctx[c0].job)
  IN << [s EXCEPT !.ctx[c0] = cx, !.owner[l0] = NONE, !.lens[l0] = 0, !.cur[l0] = 0, !.unused = << l0 >> \o @], c0 >>

\* *_mb_mgr_flush
MgrFlush(s) == IF Occupied(s) = {} THEN << s, NONE >>
               ELSE IF Cardinality(Occupied(s)) <= SbThreshold /\ MinLen(s) > 0 THEN RunSingle(s) ELSE RunMin(s)

\* ---------------------------------------------------------------- *_ctx_mgr_resubmit
RECURSIVE Resubmit(_, _, _), Tail2(_, _, _, _)
Resubmit(s, c, fuel) ==
  IF c = NONE \/ fuel = 0 THEN << s, c >>
  ELSE LET cx == s.ctx[c] IN
       IF "C" \in cx.status
       THEN << [s EXCEPT !.ctx[c] = [cx EXCEPT !.status = {"C"}, !.job = << "none", << >>, 0 >>, !.inc = << 0, 0 >>, !.pb = << >>]], c >>
       ELSE IF cx.pb = << >> /\ cx.inc[2] > 0
       THEN LET len == cx.inc[2]
                copy == len % B
                nblk == (len - copy) \div B
                cx1 == [cx EXCEPT !.pb = Range(cx.inc[1] + len - copy, copy), !.inc = << cx.inc[1], 0 >>]
            IN IF nblk > 0
               THEN LET r == MgrSubmit([s EXCEPT !.ctx[c] = [cx1 EXCEPT !.job = << "user", cx.inc[1], nblk >>]], c)
                    IN Resubmit(r[1], r[2], fuel - 1)
               ELSE Tail2(s, c, cx1, fuel)
       ELSE Tail2(s, c, cx, fuel)
\* the part of the loop body after the whole-block stage: pad on LAST, otherwise hand back idle
Tail2(s, c, cx, fuel) ==
  IF "L" \in cx.status
  THEN LET pad == cx.pb \o PadIds(cx.tot)
           cx1 == [cx EXCEPT !.status = {"P", "C"}, !.pb = pad, !.job = << "pb", pad, Len(pad) \div B >>]
           r == MgrSubmit([s EXCEPT !.ctx[c] = cx1], c)
       IN Resubmit(r[1], r[2], fuel - 1)
  ELSE << [s EXCEPT !.ctx[c] = [cx EXCEPT !.status = {}, !.job = << "none", << >>, 0 >>, !.inc = << 0, 0 >>]], c >>

Fuel == 2 * Cardinality(Ctx) + 6

\* ---------------------------------------------------------------- public calls
RejectCode(s, c, flags) ==
  IF flags \notin 0..3 THEN -1
  ELSE IF "P" \in s.ctx[c].status THEN -2
  ELSE IF "C" \in s.ctx[c].status /\ flags % 2 = 0 THEN -3
  ELSE 0

\* returns << new state, returned context >>
DoSubmit(s, c, flags, len) ==
  LET cx0 == s.ctx[c]
      first == flags % 2 = 1
      lastb == flags \div 2 = 1
      cxa == IF first THEN [cx0 EXCEPT !.tot = 0, !.pb = << >>, !.absorbed = 0, !.bad = FALSE, !.strm = << >>, !.ssum = 0, !.fresh = FALSE] ELSE cx0
      off == cxa.tot                                  \* identity of the first byte of this segment
      cxb == [cxa EXCEPT !.err = 0, !.inc = << off, len >>, !.status = IF lastb THEN {"P", "L"} ELSE {"P"},
                         !.tot = @ + len, !.strm = IF TrackStream THEN Append(@, len) ELSE @, !.ssum = @ + len, !.lastf = lastb]
  IN IF cxb.pb # << >> \/ len < B
     THEN LET room == B - Len(cxb.pb)
              cp == IF len < room THEN len ELSE room
              cxc == [cxb EXCEPT !.pb = @ \o Range(off, cp), !.inc = << off + cp, len - cp >>]
          IN IF Len(cxc.pb) >= B
             THEN LET cxd == [cxc EXCEPT !.job = << "pb", cxc.pb, 1 >>, !.pb = << >>]
                      r == MgrSubmit([s EXCEPT !.ctx[c] = cxd], c)
                  IN Resubmit(r[1], r[2], Fuel)
             ELSE Resubmit([s EXCEPT !.ctx[c] = cxc], c, Fuel)
     ELSE Resubmit([s EXCEPT !.ctx[c] = cxb], c, Fuel)

RECURSIVE DoFlush(_, _)
DoFlush(s, fuel) ==
  LET r == MgrFlush(s) IN
  IF r[2] = NONE \/ fuel = 0 THEN << r[1], NONE >>
  ELSE LET q == Resubmit(r[1], r[2], Fuel) IN IF q[2] # NONE THEN q ELSE DoFlush(q[1], fuel - 1)

VARIABLES lastRet, lastAct
ivars == << S, lastRet, lastAct >>

SubmitAct(c, flags, len) ==
  LET code == RejectCode(S, c, flags) IN
  IF code # 0
  THEN /\ S' = [S EXCEPT !.ctx[c].err = code]
       /\ lastRet' = c /\ lastAct' = << "reject" >>
  ELSE LET r == DoSubmit(S, c, flags, len) IN
       /\ S' = r[1] /\ lastRet' = r[2] /\ lastAct' = << "submit" >>

FlushAct == LET r == DoFlush(S, Fuel) IN S' = r[1] /\ lastRet' = r[2] /\ lastAct' = << "flush" >>

IInit == Init /\ lastRet = NONE /\ lastAct = << "init" >>
Next == \/ \E c \in Ctx, f \in 0..4, n \in SegLens : SubmitAct(c, f, n)
        \/ FlushAct
Spec == IInit /\ [][Next]_ivars
\* bound the exploration: totals stay small
CtxSym == Permutations(Ctx)
Bounded == \A c \in Ctx : S.ctx[c].tot <= MaxTotal /\ Len(S.ctx[c].strm) <= 2

----------------------------------------------------------------------------
(* Invariants *)
Held == {c \in Ctx : "P" \in S.ctx[c].status}
\* C01 / C15: everything absorbed so far was the next block of the padded stream, in order
InOrder == \A c \in Ctx : ~S.ctx[c].bad
\* C01: a complete context has absorbed exactly stream + padding
CompleteIsWhole == \A c \in Ctx : (S.ctx[c].status = {"C"} /\ ~S.ctx[c].fresh) =>
                      S.ctx[c].absorbed = S.ctx[c].tot + PadLen(S.ctx[c].tot)
\* C15: the running total is the sum of the accepted segment lengths
RECURSIVE Sum(_)
Sum(q) == IF q = << >> THEN 0 ELSE Head(q) + Sum(Tail(q))
TotalIsSum == \A c \in Ctx : S.ctx[c].fresh \/ (S.ctx[c].tot = S.ctx[c].ssum /\ (TrackStream => S.ctx[c].tot = Sum(S.ctx[c].strm)))
\* the partial buffer holds the bytes just before the unconsumed ones
PartialLenOk == \A c \in Ctx : ("P" \notin S.ctx[c].status /\ ~S.ctx[c].fresh /\ "C" \notin S.ctx[c].status) =>
                   Len(S.ctx[c].pb) = S.ctx[c].tot % B
\* C06: lanes partition, owners are exactly the held contexts, nobody is handed back while processing
LanePartition == /\ {S.unused[i] : i \in 1..Len(S.unused)} = Lanes \ Occupied(S)
                 /\ Len(S.unused) = NLanes - Cardinality(Occupied(S))
OwnersAreHeld == {S.owner[l] : l \in Occupied(S)} = Held /\ Cardinality(Occupied(S)) = Cardinality(Held)
ReturnedNotProcessing == (lastRet # NONE /\ lastAct[1] # "reject") => "P" \notin S.ctx[lastRet].status
\* C06: flush returns no context exactly when the manager held none before the call
FlushNullIffEmpty == [][FlushAct => (lastRet' = NONE <=> Held = {})]_ivars
FlushNullLeavesEmpty == (lastAct = << "flush" >> /\ lastRet = NONE) => Held = {}
NeverFull == Cardinality(Occupied(S)) < NLanes     \* a submit that takes the last lane always retires one
ReturnedState == lastRet # NONE /\ lastAct[1] # "reject" =>
                   S.ctx[lastRet].status = (IF S.ctx[lastRet].lastf THEN {"C"} ELSE {})

----------------------------------------------------------------------------
(* Refinement of the verdict specification *)
ApiSt(c) == IF "P" \in S.ctx[c].status THEN "held"
            ELSE IF S.ctx[c].fresh THEN "fresh"
            ELSE IF "C" \in S.ctx[c].status THEN "complete" ELSE "idle"
API == INSTANCE HashAPI WITH
         MaxHeld <- NLanes, Segs <- SegLens, SegLen <- LAMBDA n : << 0, n >>,
         st <- [c \in Ctx |-> ApiSt(c)],
         stream <- [c \in Ctx |-> S.ctx[c].strm],
         total <- [c \in Ctx |-> << 0, S.ctx[c].tot >>],
         last <- [c \in Ctx |-> S.ctx[c].lastf],
         held <- Held,
         err <- [c \in Ctx |-> S.ctx[c].err]
Refines == API!Spec
=============================================================================
