---- MODULE RhImpl_TTrace_1790991473 ----
EXTENDS Sequences, TLCExt, Toolbox, Naturals, TLC, RhImpl

_expression ==
    LET RhImpl_TEExpression == INSTANCE RhImpl_TEExpression
    IN RhImpl_TEExpression!expression
----

_trace ==
    LET RhImpl_TETrace == INSTANCE RhImpl_TETrace
    IN RhImpl_TETrace!trace
----

_inv ==
    ~(
        TLCGet("level") = Len(_TETrace)
        /\
        hits = (<<>>)
        /\
        hist = (<<1, 0>>)
        /\
        specHits = (<<>>)
        /\
        bad = (TRUE)
        /\
        pos = (1)
        /\
        stream = (<<0, 0, 0, 0>>)
        /\
        trig = (1)
        /\
        hash = (14)
        /\
        mask = (1)
    )
----

_init ==
    /\ hits = _TETrace[1].hits
    /\ specHits = _TETrace[1].specHits
    /\ trig = _TETrace[1].trig
    /\ pos = _TETrace[1].pos
    /\ bad = _TETrace[1].bad
    /\ stream = _TETrace[1].stream
    /\ mask = _TETrace[1].mask
    /\ hash = _TETrace[1].hash
    /\ hist = _TETrace[1].hist
----

_next ==
    /\ \E i,j \in DOMAIN _TETrace:
        /\ \/ /\ j = i + 1
              /\ i = TLCGet("level")
        /\ hits  = _TETrace[i].hits
        /\ hits' = _TETrace[j].hits
        /\ specHits  = _TETrace[i].specHits
        /\ specHits' = _TETrace[j].specHits
        /\ trig  = _TETrace[i].trig
        /\ trig' = _TETrace[j].trig
        /\ pos  = _TETrace[i].pos
        /\ pos' = _TETrace[j].pos
        /\ bad  = _TETrace[i].bad
        /\ bad' = _TETrace[j].bad
        /\ stream  = _TETrace[i].stream
        /\ stream' = _TETrace[j].stream
        /\ mask  = _TETrace[i].mask
        /\ mask' = _TETrace[j].mask
        /\ hash  = _TETrace[i].hash
        /\ hash' = _TETrace[j].hash
        /\ hist  = _TETrace[i].hist
        /\ hist' = _TETrace[j].hist

\* Uncomment the ASSUME below to write the states of the error trace
\* to the given file in Json format. Note that you can pass any tuple
\* to `JsonSerialize`. For example, a sub-sequence of _TETrace.
    \* ASSUME
    \*     LET J == INSTANCE Json
    \*         IN J!JsonSerialize("RhImpl_TTrace_1790991473.json", _TETrace)

=============================================================================

 Note that you can extract this module `RhImpl_TEExpression`
  to a dedicated file to reuse `expression` (the module in the 
  dedicated `RhImpl_TEExpression.tla` file takes precedence 
  over the module `RhImpl_TEExpression` below).

---- MODULE RhImpl_TEExpression ----
EXTENDS Sequences, TLCExt, Toolbox, Naturals, TLC, RhImpl

expression == 
    [
        \* To hide variables of the `RhImpl` spec from the error trace,
        \* remove the variables below.  The trace will be written in the order
        \* of the fields of this record.
        hits |-> hits
        ,specHits |-> specHits
        ,trig |-> trig
        ,pos |-> pos
        ,bad |-> bad
        ,stream |-> stream
        ,mask |-> mask
        ,hash |-> hash
        ,hist |-> hist
        
        \* Put additional constant-, state-, and action-level expressions here:
        \* ,_stateNumber |-> _TEPosition
        \* ,_hitsUnchanged |-> hits = hits'
        
        \* Format the `hits` variable as Json value.
        \* ,_hitsJson |->
        \*     LET J == INSTANCE Json
        \*     IN J!ToJson(hits)
        
        \* Lastly, you may build expressions over arbitrary sets of states by
        \* leveraging the _TETrace operator.  For example, this is how to
        \* count the number of times a spec variable changed up to the current
        \* state in the trace.
        \* ,_hitsModCount |->
        \*     LET F[s \in DOMAIN _TETrace] ==
        \*         IF s = 1 THEN 0
        \*         ELSE IF _TETrace[s].hits # _TETrace[s-1].hits
        \*             THEN 1 + F[s-1] ELSE F[s-1]
        \*     IN F[_TEPosition - 1]
    ]

=============================================================================



Parsing and semantic processing can take forever if the trace below is long.
 In this case, it is advised to uncomment the module below to deserialize the
 trace from a generated binary file.

\*
\*---- MODULE RhImpl_TETrace ----
\*EXTENDS IOUtils, TLC, RhImpl
\*
\*trace == IODeserialize("RhImpl_TTrace_1790991473.bin", TRUE)
\*
\*=============================================================================
\*

---- MODULE RhImpl_TETrace ----
EXTENDS TLC, RhImpl

trace == 
    <<
    ([hits |-> <<>>,hist |-> <<0, 1>>,specHits |-> <<>>,bad |-> FALSE,pos |-> 0,stream |-> <<0, 0, 0, 0>>,trig |-> 1,hash |-> 14,mask |-> 1]),
    ([hits |-> <<>>,hist |-> <<1, 0>>,specHits |-> <<>>,bad |-> TRUE,pos |-> 1,stream |-> <<0, 0, 0, 0>>,trig |-> 1,hash |-> 14,mask |-> 1])
    >>
----


=============================================================================

---- CONFIG RhImpl_TTrace_1790991473 ----
CONSTANTS
    W = 2
    Alphabet = { 0 , 1 , 2 }
    StreamLen = 4
    Masks = { 1 , 3 }
    Variant = "short-exit-keeps-old-hash"

INVARIANT
    _inv

CHECK_DEADLOCK
    \* CHECK_DEADLOCK off because of PROPERTY or INVARIANT above.
    FALSE

INIT
    _init

NEXT
    _next

CONSTANT
    _TETrace <- _trace

ALIAS
    _expression
=============================================================================
\* Generated on Sat Oct 03 01:37:56 UTC 2026