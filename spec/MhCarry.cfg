SPECIFICATION Spec
CONSTANTS
  Blk = 8
  LF = 2
  MaxLen = 26
  Lens = {0, 1, 2, 5, 6, 7, 8, 9, 15, 16, 17}
INVARIANTS InOrder CarryIsResidue AbsorbedIsFloor WholeAtEnd TwoTailBlocksIff
CHECK_DEADLOCK FALSE
