------------------------------ MODULE TraceMh ------------------------------
(***************************************************************************)
(* Trace validation of multi-hash (C05), stitched multi-hash + murmur     *)
(* (C10) and the rolling hash (C09).                                      *)
(*                                                                         *)
(* MhStream (verdict): per stream the spec records the segments fed by    *)
(* update calls; at finalize the digest must equal MultiHash!MhDigest of  *)
(* their concatenation - so no segmentation can matter.                   *)
(*                                                                         *)
(* RollingHash (verdict): per state the spec keeps only w and the last w  *)
(* stream bytes; each run must report RollingHash!Run's offset/match and  *)
(* leave state->hash = H(last w bytes).                                   *)
(***************************************************************************)
EXTENDS MultiHash, RollingHash, Machine, TraceLib

VARIABLES l, mst, rst, viol
tvars == << l, mst, rst, viol >>

MayBind(fam) == fam \in {"isal", "legacy", "legacy_base", "int"}
MachineChecks(e, fam) ==
     Chk(ABIOk(e.obs), "C19", "abi", l, << e.e, fam, e.obs >>)
  \o Chk(NoFault(e.obs), "FAULT", "call-faulted", l, << e.e, fam, e.obs.fault, e.obs.fw >>)
  \o Chk(MemOk(e.obs), "C08", "mem", l, << e.e, fam, e.obs >>)
  \o Chk(StaticOk(e.obs, MayBind(fam)), "C18", "static-write", l, << e.e, fam, e.obs.stsym >>)

IsEv(name) == l <= NEv /\ Tr[l].e = name
Step(v) == /\ l' = l + 1
           /\ viol' = Cap(viol \o v)
           /\ PubResult(viol', l')
Upd(f, k, v) == [x \in (DOMAIN f) \cup {k} |-> IF x = k THEN v ELSE f[x]]

AddLen(t, seg) == LET lo == t[2] + seg[4] IN << t[1] + seg[3] + (lo \div 1048576), lo % 1048576 >>
RECURSIVE MsgBytes(_)
MsgBytes(ss) == IF Len(ss) = 0 THEN << >> ELSE PatBytes(ss[1][1], ss[1][2], ss[1][4]) \o MsgBytes(Tail(ss))

TInit == l = 1 /\ mst = << >> /\ rst = << >> /\ viol = << >> /\ PubResult(<< >>, 1)

\* ---------------------------------------------------------------- multi-hash
TMhInit ==
  /\ IsEv("MhInit") /\ UNCHANGED rst
  /\ LET e == Tr[l] IN
     /\ mst' = Upd(mst, e.sid, [alg |-> e.alg, fam |-> e.fam, seed |-> FromHex(e.seed), segs |-> << >>, big |-> FALSE, n |-> 0, tot |-> << 0, 0 >>,
                                ok |-> e.obs.fault = 0])
     /\ Step(Chk(e.rc = 0, "C16", "mh-init-rc", l, << e.alg, e.fam, e.rc >>) \o MachineChecks(e, e.fam))

TMhUpdate ==
  /\ IsEv("MhUpdate") /\ UNCHANGED rst
  /\ LET e == Tr[l]  s == mst[e.sid] IN
     \* the stream is the list of segments <<buffer, offset, length hi, length lo>> (length = hi * 2^20 + lo)
     /\ mst' = [mst EXCEPT ![e.sid] = [s EXCEPT !.segs = Append(s.segs, e.data), !.big = s.big \/ e.data[3] > 0 \/ s.n + e.data[4] > 65536,
                                                !.n = IF e.data[3] > 0 THEN s.n ELSE s.n + e.data[4], !.tot = AddLen(s.tot, e.data),
                                                !.ok = s.ok /\ e.obs.fault = 0]]
     /\ LET s1 == mst'[e.sid]
             tot1 == AddLen(s.tot, e.data)
             \* MhCarry!CarryIsResidue on the real context: total_length is the running total and the partial block buffer
             \* carries exactly the last (total mod 1024) bytes of the stream (implementation-shaped: MODEL-DRIFT only)
             carry == IF "tl" \in DOMAIN e /\ s.ok
                      THEN    Chk(e.tl = tot1, "DRIFT", "mh-context-total-length", l, << s.alg, s.fam, e.tl, tot1 >>)
                           \o (IF s1.big THEN << >>
                               ELSE LET m == MsgBytes(s1.segs)  r == Len(m) % 1024
                                    IN Chk(e.pb = ToHex(SubSeq(m, Len(m) - r + 1, Len(m))), "DRIFT", "mh-carried-bytes", l, << s.alg, s.fam, Len(m), r >>))
                      ELSE << >>
        IN Step(Chk(e.rc = 0, "C16", "mh-update-rc", l, << s.alg, s.fam, e.rc >>) \o carry \o MachineChecks(e, s.fam))

Prop(alg) == IF alg = "murmur" THEN "C10" ELSE "C05"
TMhFinal ==
  /\ IsEv("MhFinal") /\ UNCHANGED << mst, rst >>
  /\ LET e == Tr[l]  s == mst[e.sid]
         inner == IF s.alg = "sha256" THEN "sha256" ELSE "sha1"
         info == << s.alg, s.fam, s.segs >>
         \* short streams: the TLA+ definition evaluated on the bytes; long streams (>= 64 KiB, up to 2^32): the streaming
         \* primitive, which PrimSelfTest ties to the definition
         msg == IF s.big THEN << >> ELSE MsgBytes(s.segs)
     IN Step(IF ~s.ok \/ e.obs.fault # 0 THEN MachineChecks(e, s.fam)
             ELSE LET exp == ToHex(IF s.big THEN MhDigestOfSegs(inner, s.segs) ELSE MhDigest(inner, msg))
                  IN    Chk(e.dig = exp, Prop(s.alg), "mh-digest", l, info \o << e.dig, exp >>)
                     \* implementation-shaped: the context's digest field holds the same value after finalize
                     \o (IF "cdig" \in DOMAIN e THEN Chk(e.cdig = e.dig, "DRIFT", "mh-context-digest-field", l, << s.alg, s.fam, e.cdig, e.dig >>) ELSE << >>)
                     \o (IF s.alg = "murmur"
                         THEN LET m == ToHex(IF s.big THEN Murmur3OfSegs(s.segs, s.seed) ELSE Murmur3x64128(msg, s.seed))
                              IN Chk(e.mur = m, "C10", "murmur-digest", l, info \o << ToHex(s.seed), e.mur, m >>)
                         ELSE << >>)
                     \o Chk(e.rc = 0, "C16", "mh-final-rc", l, info \o << e.rc >>)
                     \o MachineChecks(e, s.fam))

\* ---------------------------------------------------------------- rolling hash
TRhInit ==
  /\ IsEv("RhInit") /\ UNCHANGED mst
  /\ LET e == Tr[l] IN
     /\ rst' = Upd(rst, e.sid, [fam |-> e.fam, scan |-> e.scan, w |-> e.w, hist |-> << >>, ok |-> FALSE])
     /\ Step(Chk(e.rc = 0, "C16", "rh-init-rc", l, << e.fam, e.w, e.rc >>) \o MachineChecks(e, e.fam))

TRhReset ==
  /\ IsEv("RhReset") /\ UNCHANGED mst
  /\ LET e == Tr[l]  s == rst[e.sid]  init == PatBytes(e.init[1], e.init[2], s.w) IN
     /\ rst' = [rst EXCEPT ![e.sid] = [s EXCEPT !.hist = init, !.ok = e.obs.fault = 0]]
     /\ Step(   Chk(e.obs.fault # 0 \/ e.hash = ToHex(H(init)), "C09", "hash-after-reset", l, << s.fam, s.w, e.hash, ToHex(H(init)) >>)
             \o Chk(e.rc = 0, "C16", "rh-reset-rc", l, << s.fam, e.rc >>)
             \o MachineChecks(e, s.fam))

TRhRun ==
  /\ IsEv("RhRun") /\ UNCHANGED mst
  /\ LET e == Tr[l]  s == rst[e.sid]
         buf == PatBytes(e.data[1], e.data[2], e.data[3])
         r == Run(s.hist, buf, FromHex(e.mask), FromHex(e.trig))
         info == << s.fam, s.scan, s.w, e.data[3], e.mask, e.trig >>
     IN IF ~s.ok \/ e.obs.fault # 0
        THEN /\ rst' = [rst EXCEPT ![e.sid] = [s EXCEPT !.ok = FALSE]]
             /\ Step(MachineChecks(e, s.fam))
        ELSE \* the caller resumes where the library says it stopped; the spec's window follows the SPEC's offset
             /\ rst' = [rst EXCEPT ![e.sid] = [s EXCEPT !.hist = r.hist, !.ok = (e.off = r.off)]]
             /\ Step(   Chk(e.off = r.off /\ e.match = (IF r.hit THEN 0 ELSE 1), "C09", "offset-or-match", l,
                            info \o << e.off, e.match, r.off, r.hit >>)
                     \o Chk(e.hash = ToHex(r.h), "C09", "hash-after-run", l, info \o << e.hash, ToHex(r.h) >>)
                     \o Chk(r.h = H(r.hist), "SPEC", "recurrence-vs-closed-form", l, info)
                     \* implementation-shaped: the state's saved window is the last w bytes of the stream, in order
                     \o (IF "hist" \in DOMAIN e /\ e.off = r.off
                         THEN Chk(e.hist = ToHex(r.hist), "DRIFT", "rh-saved-window", l, info \o << e.hist, ToHex(r.hist) >>) ELSE << >>)
                     \o Chk(e.rc = 0, "C16", "rh-run-rc", l, info \o << e.rc >>)
                     \o MachineChecks(e, s.fam))

\* the inner scan called directly: window = the w bytes in front of the range, hash = H(window); the scan stops ON the hitting
\* byte (idx = its index) or after max_idx bytes
TRhUntil ==
  /\ IsEv("RhUntil") /\ UNCHANGED << mst, rst >>
  /\ LET e == Tr[l]
         hist == PatBytes(e.data[1], e.data[2], e.w)
         buf == PatBytes(e.data[1], e.data[2] + e.w, e.data[3])
         r == Run(hist, buf, FromHex(e.mask), FromHex(e.trig))
         info == << e.scan, e.w, e.data[3], e.mask, e.trig >>
     IN Step(IF e.obs.fault # 0 THEN MachineChecks(e, "int")
             ELSE    Chk(e.idx = (IF r.hit THEN r.off - 1 ELSE e.data[3]), "C09", "scan-index", l, info \o << e.idx, r.off, r.hit >>)
                  \o Chk(e.hash = ToHex(r.h), "C09", "scan-hash", l, info \o << e.hash, ToHex(r.h) >>)
                  \o MachineChecks(e, "int"))

TRhMask ==
  /\ IsEv("RhMask") /\ UNCHANGED << mst, rst >>
  /\ LET e == Tr[l] IN
     Step(   Chk(e.mask = ToHex(MaskGen(e.mean, e.shift % 32)), "C09", "mask-gen", l, << e.mean, e.shift, e.mask, ToHex(MaskGen(e.mean, e.shift % 32)) >>)
          \o Chk(e.rc = 0, "C16", "rh-mask-rc", l, << e.rc >>)
          \o MachineChecks(e, "isal"))

TSkip == l <= NEv /\ Tr[l].e = "Mark" /\ UNCHANGED << mst, rst >> /\ Step(<< >>)
TNext == TMhInit \/ TMhUpdate \/ TMhFinal \/ TRhInit \/ TRhReset \/ TRhRun \/ TRhUntil \/ TRhMask \/ TSkip
TSpec == TInit /\ [][TNext]_tvars
TraceAccepted == WriteResult /\ TLCGet(2) = NEv + 1
=============================================================================
