#!/usr/bin/env python3
"""entry -> (resolver macro, candidate families) extracted from the *_multibinary.asm sources of /repo's working tree."""
import glob, json, os, re
REPO = os.environ.get("VERIF_REPO", "/repo")
MACRO = {"mbin_dispatch_init": "init", "mbin_dispatch_init2": "init2", "mbin_dispatch_init5": "init5", "mbin_dispatch_init6": "init6",
         "mbin_dispatch_init7": "init7", "mbin_dispatch_init6_avoton": "init6_avoton",
         "mbin_dispatch_base_to_avx512_shani": "base_to_avx512_shani", "mbin_dispatch_sse_to_avx2_shani": "sse_to_avx2_shani",
         "mbin_dispatch_init_avoton": "init_avoton"}


DEFINES = {"AS_FEATURE_LEVEL": 10, "HAVE_AS_KNOWS_AVX512": 1}     # as tools/build.py builds the library (x86-64 ELF)


def cond(line):
    """value of an %if-family line under DEFINES; None = not a conditional"""
    m = re.match(r"^\s*%(ifdef|ifndef|ifidn|if|elif)\b(.*)$", line)
    if not m:
        return None
    k, rest = m.group(1), m.group(2).strip()
    if k == "ifdef":
        return rest.split()[0] in DEFINES
    if k == "ifndef":
        return rest.split()[0] not in DEFINES
    if k == "ifidn":
        a, b = [x.strip() for x in rest.split(",")]
        return {"__OUTPUT_FORMAT__": "elf64"}.get(a, a) == b
    m2 = re.match(r"^\(?\s*(\w+)\s*\)?\s*(>=|<|>|<=|==)\s*(\d+)$", rest)
    if not m2 or m2.group(1) not in DEFINES:
        raise RuntimeError("disp_table: cannot evaluate %r" % line)
    a, op, b = DEFINES[m2.group(1)], m2.group(2), int(m2.group(3))
    return {">=": a >= b, "<": a < b, ">": a > b, "<=": a <= b, "==": a == b}[op]


def active_text(text):
    out, stack = [], []          # stack of [active now, some branch already taken, parent active]
    for line in text.splitlines():
        st = line.strip()
        if re.match(r"^%(ifdef|ifndef|ifidn|if)\b", st):
            par = all(x[0] for x in stack)
            c = cond(line) if par else False
            stack.append([c, c, par])
        elif re.match(r"^%elif\b", st):
            t = stack[-1]
            c = (not t[1]) and t[2] and cond(line)
            t[0], t[1] = c, t[1] or c
        elif re.match(r"^%else\b", st):
            t = stack[-1]
            t[0] = (not t[1]) and t[2]
            t[1] = True
        elif re.match(r"^%endif\b", st):
            stack.pop()
        elif all(x[0] for x in stack):
            out.append(line)
    return "\n".join(out)


def fam_of(entry, cand):
    nt = entry.endswith("_nt")
    base = entry[:-3] if nt else entry
    if cand.startswith(base + "_"):
        f = cand[len(base) + 1:]
        if nt and f.endswith("_nt"):
            f = f[:-3]
        return f
    return "?" + cand


def unit_of(entry):
    return "aes" if entry.startswith(("_aes_", "_XTS_")) else "mh" if entry.startswith("_mh_") else "rh" if entry.startswith("_rolling") else "hash"


def table():
    out, seen = [], set()
    for f in sorted(glob.glob(os.path.join(REPO, "*", "*multibinary*.asm"))):
        if "/include/" in f:
            continue
        text = open(f).read().replace("\\\n", " ")
        text = active_text("\n".join(l.split(";")[0] for l in text.splitlines()))
        for m in re.finditer(r"^\s*(mbin_dispatch_\w+)\s+(.+)$", text, re.M):
            macro, args = m.group(1), [a.strip() for a in m.group(2).split(",")]
            if macro not in MACRO or not args or args[0].startswith("%") or re.match(r"^\d+$", args[0]):
                continue
            entry = args[0]
            if entry in seen:
                raise RuntimeError("disp_table: two active resolvers for " + entry)
            seen.add(entry)
            out.append({"entry": entry, "unit": unit_of(entry), "macro": MACRO[macro], "fams": [fam_of(entry, c) for c in args[1:]]})
    rh = os.path.join(REPO, "rolling_hash", "rolling_hash2_multibinary.asm")
    if os.path.exists(rh) and "_rolling_hash2_run_until" not in seen:
        out.append({"entry": "_rolling_hash2_run_until", "unit": "rh", "macro": "rolling", "fams": ["base", "00", "04"]})
    return out


if __name__ == "__main__":
    for e in table():
        print(json.dumps(e))
