#!/bin/sh
# usage: try_mutant.sh <patch.diff> <property> [tier]  - apply to /repo, run the check, always revert
set -u
P=$(readlink -f "$1"); ID=$2; TIER=${3:-quick}
cd /repo || exit 9
git diff --quiet || { echo "/repo not clean"; exit 9; }
git apply "$P" || { echo "patch does not apply"; exit 9; }
cd /verif
python3 tools/check.py "$ID" --tier "$TIER" > /tmp/mut.$$.out 2>&1
rc=$?
git -C /repo checkout -- .
grep -E 'VIOLATION|KNOWN-FINDING|MACHINERY|MODEL-DRIFT' /tmp/mut.$$.out | cut -c1-400 | head -8
echo "check rc=$rc"
rm -f /tmp/mut.$$.out
