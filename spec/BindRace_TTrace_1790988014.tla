---- MODULE BindRace_TTrace_1790988014 ----
EXTENDS Sequences, TLCExt, BindRace, Toolbox, Naturals, TLC, BindRace_TEConstants

_expression ==
    LET BindRace_TEExpression == INSTANCE BindRace_TEExpression
    IN BindRace_TEExpression!expression
----

_trace ==
    LET BindRace_TETrace == INSTANCE BindRace_TETrace
    IN BindRace_TETrace!trace
----

_inv ==
    ~(
        TLCGet("level") = Len(_TETrace)
        /\
        half = ((t1 :> 1 @@ t2 :> 0 @@ t3 :> 0))
        /\
        pc = ((t1 :> "storing" @@ t2 :> "crashed" @@ t3 :> "idle"))
        /\
        slot = ("torn")
        /\
        seen = ((t1 :> "resolver" @@ t2 :> "torn" @@ t3 :> "none"))
    )
----

_init ==
    /\ slot = _TETrace[1].slot
    /\ seen = _TETrace[1].seen
    /\ half = _TETrace[1].half
    /\ pc = _TETrace[1].pc
----

_next ==
    /\ \E i,j \in DOMAIN _TETrace:
        /\ \/ /\ j = i + 1
              /\ i = TLCGet("level")
        /\ slot  = _TETrace[i].slot
        /\ slot' = _TETrace[j].slot
        /\ seen  = _TETrace[i].seen
        /\ seen' = _TETrace[j].seen
        /\ half  = _TETrace[i].half
        /\ half' = _TETrace[j].half
        /\ pc  = _TETrace[i].pc
        /\ pc' = _TETrace[j].pc

\* Uncomment the ASSUME below to write the states of the error trace
\* to the given file in Json format. Note that you can pass any tuple
\* to `JsonSerialize`. For example, a sub-sequence of _TETrace.
    \* ASSUME
    \*     LET J == INSTANCE Json
    \*         IN J!JsonSerialize("BindRace_TTrace_1790988014.json", _TETrace)

=============================================================================

 Note that you can extract this module `BindRace_TEExpression`
  to a dedicated file to reuse `expression` (the module in the 
  dedicated `BindRace_TEExpression.tla` file takes precedence 
  over the module `BindRace_TEExpression` below).

---- MODULE BindRace_TEExpression ----
EXTENDS Sequences, TLCExt, BindRace, Toolbox, Naturals, TLC, BindRace_TEConstants

expression == 
    [
        \* To hide variables of the `BindRace` spec from the error trace,
        \* remove the variables below.  The trace will be written in the order
        \* of the fields of this record.
        slot |-> slot
        ,seen |-> seen
        ,half |-> half
        ,pc |-> pc
        
        \* Put additional constant-, state-, and action-level expressions here:
        \* ,_stateNumber |-> _TEPosition
        \* ,_slotUnchanged |-> slot = slot'
        
        \* Format the `slot` variable as Json value.
        \* ,_slotJson |->
        \*     LET J == INSTANCE Json
        \*     IN J!ToJson(slot)
        
        \* Lastly, you may build expressions over arbitrary sets of states by
        \* leveraging the _TETrace operator.  For example, this is how to
        \* count the number of times a spec variable changed up to the current
        \* state in the trace.
        \* ,_slotModCount |->
        \*     LET F[s \in DOMAIN _TETrace] ==
        \*         IF s = 1 THEN 0
        \*         ELSE IF _TETrace[s].slot # _TETrace[s-1].slot
        \*             THEN 1 + F[s-1] ELSE F[s-1]
        \*     IN F[_TEPosition - 1]
    ]

=============================================================================



Parsing and semantic processing can take forever if the trace below is long.
 In this case, it is advised to uncomment the module below to deserialize the
 trace from a generated binary file.

\*
\*---- MODULE BindRace_TETrace ----
\*EXTENDS IOUtils, BindRace, TLC, BindRace_TEConstants
\*
\*trace == IODeserialize("BindRace_TTrace_1790988014.bin", TRUE)
\*
\*=============================================================================
\*

---- MODULE BindRace_TETrace ----
EXTENDS BindRace, TLC, BindRace_TEConstants

trace == 
    <<
    ([half |-> (t1 :> 0 @@ t2 :> 0 @@ t3 :> 0),pc |-> (t1 :> "idle" @@ t2 :> "idle" @@ t3 :> "idle"),slot |-> "resolver",seen |-> (t1 :> "none" @@ t2 :> "none" @@ t3 :> "none")]),
    ([half |-> (t1 :> 0 @@ t2 :> 0 @@ t3 :> 0),pc |-> (t1 :> "loaded" @@ t2 :> "idle" @@ t3 :> "idle"),slot |-> "resolver",seen |-> (t1 :> "resolver" @@ t2 :> "none" @@ t3 :> "none")]),
    ([half |-> (t1 :> 0 @@ t2 :> 0 @@ t3 :> 0),pc |-> (t1 :> "resolving" @@ t2 :> "idle" @@ t3 :> "idle"),slot |-> "resolver",seen |-> (t1 :> "resolver" @@ t2 :> "none" @@ t3 :> "none")]),
    ([half |-> (t1 :> 0 @@ t2 :> 0 @@ t3 :> 0),pc |-> (t1 :> "storing" @@ t2 :> "idle" @@ t3 :> "idle"),slot |-> "resolver",seen |-> (t1 :> "resolver" @@ t2 :> "none" @@ t3 :> "none")]),
    ([half |-> (t1 :> 1 @@ t2 :> 0 @@ t3 :> 0),pc |-> (t1 :> "storing" @@ t2 :> "idle" @@ t3 :> "idle"),slot |-> "torn",seen |-> (t1 :> "resolver" @@ t2 :> "none" @@ t3 :> "none")]),
    ([half |-> (t1 :> 1 @@ t2 :> 0 @@ t3 :> 0),pc |-> (t1 :> "storing" @@ t2 :> "loaded" @@ t3 :> "idle"),slot |-> "torn",seen |-> (t1 :> "resolver" @@ t2 :> "torn" @@ t3 :> "none")]),
    ([half |-> (t1 :> 1 @@ t2 :> 0 @@ t3 :> 0),pc |-> (t1 :> "storing" @@ t2 :> "crashed" @@ t3 :> "idle"),slot |-> "torn",seen |-> (t1 :> "resolver" @@ t2 :> "torn" @@ t3 :> "none")])
    >>
----


=============================================================================

---- MODULE BindRace_TEConstants ----
EXTENDS BindRace

CONSTANTS t1, t2, t3

=============================================================================

---- CONFIG BindRace_TTrace_1790988014 ----
CONSTANTS
    Thread = { t1 , t2 , t3 }
    StoreSteps = 2
    t1 = t1
    t3 = t3
    t2 = t2

INVARIANT
    _inv

CHECK_DEADLOCK
    \* CHECK_DEADLOCK off because of PROPERTY or INVARIANT above.
    FALSE

INIT
    _init

NEXT
    _next

CONSTANT
    _TETrace <- _trace

ALIAS
    _expression
=============================================================================
\* Generated on Sat Oct 03 00:40:15 UTC 2026