SPECIFICATION FairSpec
CONSTANTS
  Threads = {t1, t2, t3}
  Calls = 2
  Outcomes = {"pass", "fail"}
INVARIANTS ExactlyOnce NoEarlyPass SameVerdict StatusType
PROPERTIES WriteOnce AllReturn
CHECK_DEADLOCK FALSE
