------------------------------ MODULE GcmCarry ------------------------------
(***************************************************************************)
(* Implementation-shaped model of the GCM streaming carry (C07): what      *)
(* init / update / finalize keep in isal_gcm_context_data between calls    *)
(* (PARTIAL_BLOCK + GCM_ENC_DEC of aes/gcm_sse.asm and siblings), with a   *)
(* toy block of B bytes.  Bytes are identities (position in the message),  *)
(* key-stream blocks are identified by their counter index.                *)
(*   inLen    bytes consumed so far (context in_length)                    *)
(*   pbLen    bytes of the carried partial block (partial_block_length)    *)
(*   ctr      counter blocks generated so far (current_counter - J0)       *)
(*   hashed   full blocks folded into GHASH so far                         *)
(*   outKs    ghost: for every consumed byte, which key-stream byte (block *)
(*            index, offset) it was XORed with                             *)
(* The verdict (GcmStream) is: byte p is XORed with key-stream byte        *)
(* (p div B, p mod B), every full block is hashed exactly once in order,   *)
(* finalize hashes the padded tail - whatever the segmentation.            *)
(***************************************************************************)
EXTENDS Naturals, Sequences

CONSTANTS B, MaxLen, Lens
VARIABLES inLen, pbLen, ctr, hashed, outKs, tailHashed, done
cvars == << inLen, pbLen, ctr, hashed, outKs, tailHashed, done >>

Init == inLen = 0 /\ pbLen = 0 /\ ctr = 0 /\ hashed = 0 /\ outKs = << >> /\ tailHashed = FALSE /\ done = FALSE

Min(a, b) == IF a < b THEN a ELSE b
\* one update call of len bytes, in the three stages of the code
Update(len) ==
  /\ ~done /\ inLen + len <= MaxLen
  /\ LET fill == IF pbLen > 0 THEN Min(len, B - pbLen) ELSE 0       \* PARTIAL_BLOCK: finish the carried block with ITS key stream
         ks1 == [i \in 1..fill |-> << ctr - 1, pbLen + i - 1 >>]
         pb1 == (pbLen + fill) % B
         h1 == hashed + (IF pbLen > 0 /\ pbLen + fill = B THEN 1 ELSE 0)
         rest == len - fill
         nblk == rest \div B                                        \* bulk loop: whole blocks, fresh counters
         ks2 == [i \in 1..(nblk * B) |-> << ctr + ((i - 1) \div B), (i - 1) % B >>]
         tail == rest % B                                           \* new partial block: one more counter, kept for the next call
         ks3 == [i \in 1..tail |-> << ctr + nblk, i - 1 >>]
     IN /\ inLen' = inLen + len
        /\ pbLen' = IF rest > 0 THEN tail ELSE pb1
        /\ ctr' = ctr + nblk + (IF tail > 0 THEN 1 ELSE 0)
        /\ hashed' = h1 + nblk
        /\ outKs' = outKs \o ks1 \o ks2 \o ks3
  /\ UNCHANGED << tailHashed, done >>

Finalize == /\ ~done /\ done' = TRUE /\ tailHashed' = (pbLen > 0)     \* the padded partial block is hashed once, at the end
            /\ UNCHANGED << inLen, pbLen, ctr, hashed, outKs >>
Next == (\E n \in Lens : Update(n)) \/ Finalize
Spec == Init /\ [][Next]_cvars

\* ---- the verdict, as invariants
KeyStreamByPosition == \A p \in 1..Len(outKs) : outKs[p] = << (p - 1) \div B, (p - 1) % B >>
CarryIsResidue == pbLen = inLen % B
CounterIsCeil == ctr = (inLen + B - 1) \div B
HashedIsFloor == hashed = inLen \div B
EveryByteHashedOnce == done => (hashed * B + (IF tailHashed THEN pbLen ELSE 0) = inLen)
=============================================================================
