#!/usr/bin/env python3
"""Schedules for the FIPS self-test protocol driver (C17) and the instruction map of the status function."""
import random, re, subprocess, json


def instr_map(exe):
    """offset:class map of the accesses to self_test_status inside asm_check_self_tests_status / asm_set_self_tests_status,
    read from the disassembly of the built driver (L load, X cmpxchg, C compare, S store)."""
    def dis(fn):
        out = subprocess.run(["objdump", "-d", "--no-show-raw-insn", "--disassemble=" + fn, exe], capture_output=True, text=True).stdout
        rows = []
        for l in out.splitlines():
            m = re.match(r"\s+([0-9a-f]+):\s+(.*)", l)
            if m:
                rows.append((int(m.group(1), 16), m.group(2)))
        return rows
    res = {}
    shapes = {}
    for fn in ("asm_check_self_tests_status", "asm_set_self_tests_status"):
        rows = dis(fn)
        if not rows:
            raise RuntimeError("cannot disassemble " + fn)
        base = rows[0][0]
        # the function ends at the first ret that is followed by padding / another symbol: take everything up to the last ret before nops
        end = base
        for a, t in rows:
            if t.startswith("nop") or t.startswith("data16") or t.startswith("cs nop") or t.startswith("xchg   %ax,%ax"):
                break
            end = a
            if fn == "asm_set_self_tests_status" and t.startswith("ret"):
                break
        size = end - base + 1
        m = []
        shape = ""
        for a, t in rows:
            if a > end:
                break
            if "self_test_status" not in t:
                continue
            if "cmpxchg" in t:
                k = "X"
            elif t.startswith("cmp"):
                k = "C"
            elif re.match(r"mov\w*\s+0x[0-9a-f]+\(%rip\),", t):
                k = "L"
            elif t.startswith("mov"):
                k = "S"
            else:
                k = "?"
            m.append("%d:%s" % (a - base, k))
            shape += k
        res[fn] = (size, ",".join(m) if m else "0:-")
        shapes[fn] = shape
    cmd = "selfmap %d %s %d %s" % (res["asm_check_self_tests_status"][0], res["asm_check_self_tests_status"][1],
                                   res["asm_set_self_tests_status"][0], res["asm_set_self_tests_status"][1])
    return cmd, shapes


OUTCOMES = [(0, 0), (1, 0), (0, -1), (1, -1)]


def run_cmd(n, calls, aes, sha, entry, sched):
    return "selfrun %d %d %d %d %s %s" % (n, calls, aes, sha, entry, sched or "0")


def systematic(n=2, calls=2, depth=26):
    """every single-preemption schedule of thread 0 against thread 1 (and 2): 0 runs k stops, then 1 runs to completion ..."""
    out = []
    for aes, sha in OUTCOMES:
        for k in range(0, depth):
            out.append(run_cmd(n, calls, aes, sha, "t", "0" * k + "1" * 40 + ("2" * 40 if n > 2 else "")))
            if n > 2:
                out.append(run_cmd(n, calls, aes, sha, "t", "0" * k + "2" * 3 + "1" * 40))
    return out


def two_preemptions(calls=2, depth=14):
    out = []
    for aes, sha in ((0, 0), (1, 0)):
        for a in range(0, depth):
            for b in range(1, 9):
                out.append(run_cmd(2, calls, aes, sha, "t", "0" * a + "1" * b + "0" * 30))
    return out


def randoms(rng, count):
    out = []
    for _ in range(count):
        n = rng.choice([2, 2, 3, 3, 4])
        aes, sha = rng.choice(OUTCOMES + [(0, 0), (-9, -9)] if rng.random() < 0.1 else OUTCOMES + [(0, 0)])
        L = rng.randrange(5, 70)
        sched = "".join(str(rng.randrange(n)) for _ in range(L))
        if rng.random() < 0.4:      # bursts
            sched = "".join(str(rng.randrange(n)) * rng.randrange(1, 6) for _ in range(L // 3 + 1))
        out.append(run_cmd(n, rng.choice([1, 2, 2]), aes, sha, rng.choice(["t", "t", "k"]), sched))
    return out


def from_tlc_history(hist, n, calls, outcome):
    """hist: list of [thread index, action name] from TLC simulation of SelfTest; returns a selfrun command.
    Model actions map to driver stops: Decide has a stop only when it returns; Publish = store + return."""
    sched = ""
    for t, act, returns in hist:
        if act == "Decide":
            sched += str(t) if returns else ""
        elif act == "Publish":
            sched += str(t) * 2
        else:
            sched += str(t)
    aes = 0 if outcome == "pass" else 1
    return run_cmd(n, calls, aes, 0, "t", sched)
