/* drv_aes.c - executes AES behaviours (GCM one-shot / streaming, XTS, CBC, key expansion) through
 * the trampoline and records arguments + outputs. The driver never judges an output. */
#define _GNU_SOURCE
#include "core.h"
#include <string.h>
#include <stdlib.h>
#include <stdarg.h>
#include <aes_gcm.h>
#include <aes_xts.h>
#include <aes_cbc.h>
#include <aes_keyexp.h>

static void *
need(const char *fmt, ...)
{
        char nm[160];
        va_list ap;
        va_start(ap, fmt);
        vsnprintf(nm, sizeof nm, fmt, ap);
        va_end(ap);
        void *f = sym_lookup(nm);
        if (!f)
                die("no symbol %s", nm);
        return f;
}

/* buffer filled from pattern data */
static void
pbuf(gbuf *g, uint32_t b, uint64_t off, size_t len, const char *place)
{
        int pl;
        unsigned al;
        if (gbuf_parse_place(place, &pl, &al))
                die("bad placement %s", place);
        gbuf_alloc(g, len, pl, al);
        pat_fill(g->p, b, off, len);
}
/* output buffer prefilled with hidden garbage */
static void
obuf(gbuf *g, size_t len, const char *place, uint32_t salt)
{
        int pl;
        unsigned al;
        if (gbuf_parse_place(place, &pl, &al))
                die("bad placement %s", place);
        gbuf_alloc(g, len, pl, al);
        hidden_fill(g->p, len, salt);
}

/* input and output that touch without overlapping: out == in + len ("j") or in == out + len ("J"); one guarded region */
static int
joined_pair(gbuf *big, gbuf *in, gbuf *out, uint32_t b, uint64_t off, size_t len, const char *oplace, uint32_t salt)
{
        if (oplace[0] != 'j' && oplace[0] != 'J')
                return 0;
        int in_first = oplace[0] == 'j';
        gbuf_alloc(big, 2 * len, in_first ? PL_END : PL_START, 0);
        memset(in, 0, sizeof *in);
        memset(out, 0, sizeof *out);
        in->p = in_first ? big->p : big->p + len;
        out->p = in_first ? big->p + len : big->p;
        in->len = out->len = len;
        pat_fill(in->p, b, off, len);
        hidden_fill(out->p, len, salt);
        return 1;
}

static int
is_api(const char *fam)
{
        return !strcmp(fam, "isal") || !strcmp(fam, "legacy") || !strcmp(fam, "int");
}
static const char *
api_pre(const char *fam)
{
        return !strcmp(fam, "isal") ? "isal_" : !strcmp(fam, "legacy") ? "" : "_";
}

static void
ev_desc2(const char *k, uint32_t b, uint64_t off)
{
        char s[64];
        snprintf(s, sizeof s, "[%u,%llu]", b, (unsigned long long) (off & (PAT_PERIOD - 1)));
        ev_raw(k, s);
}
static void
ev_desc3(const char *k, uint32_t b, uint64_t off, uint64_t len)
{
        char s[96];
        snprintf(s, sizeof s, "[%u,%llu,%llu]", b, (unsigned long long) (off & (PAT_PERIOD - 1)), (unsigned long long) len);
        ev_raw(k, s);
}

/* ------------------------------------------------------------------ GCM key data */
static void
gcm_make_key(const char *fam, int bits, gbuf *kd, gbuf *key, uint32_t kb, uint64_t ko, obs *o_out, uint64_t *rc_out)
{
        /* key_data: 16-byte aligned object with canaries; contents before precompute are hidden garbage */
        gbuf_alloc_obj(kd, sizeof(struct isal_gcm_key_data), (unsigned) _Alignof(struct isal_gcm_key_data));
        hidden_fill(kd->p, kd->len, 31);
        pbuf(key, kb, ko, (size_t) bits / 8, "e");
        obs o;
        uint64_t r = 0;
        if (is_api(fam)) {
                /* in-place expansion: the raw key sits where round key 0 goes (the first bytes of key_data) in some of the calls */
                int inplace = obj_reuse();
                if (inplace)
                        memcpy(kd->p, key->p, (size_t) bits / 8);
                uint64_t a[2] = { inplace ? (uint64_t) kd->p : (uint64_t) key->p, (uint64_t) kd->p };
                vc_begin();
                vc_input("key", key);
                vc_output("key_data", kd);
                r = vcall(need("%saes_gcm_pre_%d", api_pre(fam), bits), 2, a, &o);
                if (!o.fault && !inplace && obj_reuse()) { /* precompute is idempotent: a second run on the same object */
                        vc_begin();
                        vc_input("key", key);
                        vc_output("key_data", kd);
                        r = vcall(need("%saes_gcm_pre_%d", api_pre(fam), bits), 2, a, &o);
                }
        } else {
                /* same family for precompute and cipher (C02 mechanism 2) */
                static __thread uint8_t tmp[16 * 15] __attribute__((aligned(16)));
                uint64_t a[3] = { (uint64_t) key->p, (uint64_t) kd->p, (uint64_t) tmp };
                vc_begin();
                vc_input("key", key);
                vc_output("key_data", kd);
                vcall(need("_aes_keyexp_%d", bits), 3, a, &o);
                if (!o.fault) {
                        uint64_t b[1] = { (uint64_t) kd->p };
                        vc_begin();
                        vc_output("key_data", kd);
                        vcall(need("_aes_gcm_precomp_%d_%s", bits, fam), 1, b, &o);
                }
        }
        ev_begin("GcmPre");
        ev_str("fam", fam);
        ev_int("bits", bits);
        ev_desc2("key", kb, ko);
        if (vc_dump_secrets)
                ev_hex("kd", kd->p, kd->len);
        ev_obs(&o);
        ev_end();
        if (o_out)
                *o_out = o;
        if (rc_out)
                *rc_out = !strcmp(fam, "isal") ? (uint64_t) (int) r : 0;
}

/* gcm fam bits dir nt kb ko ib io ab ao alen db do len tlen inpl pin pout paad piv ptag */
static void
do_gcm(const cmd *c)
{
        const char *fam = c->t[1];
        int bits = (int) cmd_i(c, 2);
        const char *dir = c->t[3];
        int nt = (int) cmd_i(c, 4);
        uint32_t kb = (uint32_t) cmd_i(c, 5), ib = (uint32_t) cmd_i(c, 7), ab = (uint32_t) cmd_i(c, 9), db = (uint32_t) cmd_i(c, 12);
        uint64_t ko = (uint64_t) cmd_i(c, 6), io = (uint64_t) cmd_i(c, 8), ao = (uint64_t) cmd_i(c, 10), alen = (uint64_t) cmd_i(c, 11);
        uint64_t dof = (uint64_t) cmd_i(c, 13), len = (uint64_t) cmd_i(c, 14), tlen = (uint64_t) cmd_i(c, 15);
        int inpl = (int) cmd_i(c, 16);
        gbuf kd, key, ctx, in, out, aad, iv, tag;
        obs ko_obs, o;
        uint64_t prc;
        gcm_make_key(fam, bits, &kd, &key, kb, ko, &ko_obs, &prc);
        gbuf_alloc_obj(&ctx, sizeof(struct isal_gcm_context_data), (unsigned) _Alignof(struct isal_gcm_context_data));
        hidden_fill(ctx.p, ctx.len, 32);
        pbuf(&in, db, dof, len, c->t[17]);
        if (inpl)
                out = in;
        else
                obuf(&out, len, c->t[18], 33);
        pbuf(&aad, ab, ao, alen, c->t[19]);
        pbuf(&iv, ib, io, 12, c->t[20]);
        obuf(&tag, tlen, c->t[21], 34);
        void *fn;
        if (is_api(fam))
                fn = need("%saes_gcm_%s_%d%s", api_pre(fam), dir, bits, nt ? "_nt" : "");
        else
                fn = need("_aes_gcm_%s_%d_%s%s", dir, bits, fam, nt ? "_nt" : "");
        uint64_t a[10] = { (uint64_t) kd.p, (uint64_t) ctx.p, (uint64_t) out.p, (uint64_t) in.p, len, (uint64_t) iv.p,
                           (uint64_t) aad.p, alen, (uint64_t) tag.p, tlen };
        vc_begin();
        vc_input("key_data", &kd);
        vc_output("ctx", &ctx);
        if (inpl)
                vc_output("inout", &out);
        else {
                vc_input("in", &in);
                vc_output("out", &out);
        }
        vc_input("aad", &aad);
        vc_input("iv", &iv);
        vc_output("tag", &tag);
        uint64_t r = vcall(fn, 10, a, &o);
        ev_begin("Gcm");
        ev_str("fam", fam);
        ev_int("bits", bits);
        ev_str("dir", dir);
        ev_int("nt", nt);
        ev_desc2("key", kb, ko);
        ev_desc2("iv", ib, io);
        ev_desc3("aad", ab, ao, alen);
        ev_desc3("data", db, dof, len);
        ev_int("tlen", (long long) tlen);
        ev_int("inpl", inpl);
        ev_int("rc", !strcmp(fam, "isal") ? (long long) (int) r : 0);
        ev_int("prc", (long long) prc);
        ev_hex("out", out.p, o.fault ? 0 : len);
        ev_hex("tag", tag.p, o.fault ? 0 : tlen);
        if (vc_dump_secrets)
                ev_hex("kd", kd.p, kd.len);
        ev_obs(&o);
        ev_end();
        gbuf_free(&kd);
        gbuf_free(&key);
        gbuf_free(&ctx);
        gbuf_free(&in);
        if (!inpl)
                gbuf_free(&out);
        gbuf_free(&aad);
        gbuf_free(&iv);
        gbuf_free(&tag);
}

/* ------------------------------------------------------------------ GCM streaming */
#define NSTREAM 8
static __thread struct gstream {
        int used, bits;
        char fam[24];
        gbuf kd, key, ctx;
} gs[NSTREAM];

static void
ev_gctx(struct gstream *s)
{
        struct isal_gcm_context_data *x = (void *) s->ctx.p;
        char b[96];
        snprintf(b, sizeof b, "[%llu,%llu,%llu]", (unsigned long long) (x->in_length & 0x3fffffff),
                 (unsigned long long) (x->partial_block_length & 0x3fffffff), (unsigned long long) (x->aad_length & 0x3fffffff));
        ev_raw("cx", b);
}

/* gcmi sid fam bits kb ko ib io ab ao alen paad piv */
static void
do_gcmi(const cmd *c)
{
        int sid = (int) cmd_i(c, 1);
        struct gstream *s = &gs[sid];
        int keep = s->used && obj_reuse(); /* a new session on the context of the previous one, re-initialised in place */
        if (s->used) {
                gbuf_free(&s->kd);
                gbuf_free(&s->key);
                if (!keep)
                        gbuf_free(&s->ctx);
        }
        s->used = 1;
        snprintf(s->fam, sizeof s->fam, "%s", c->t[2]);
        s->bits = (int) cmd_i(c, 3);
        uint32_t kb = (uint32_t) cmd_i(c, 4), ib = (uint32_t) cmd_i(c, 6), ab = (uint32_t) cmd_i(c, 8);
        uint64_t ko = (uint64_t) cmd_i(c, 5), io = (uint64_t) cmd_i(c, 7), ao = (uint64_t) cmd_i(c, 9), alen = (uint64_t) cmd_i(c, 10);
        obs o;
        uint64_t prc;
        gcm_make_key(s->fam, s->bits, &s->kd, &s->key, kb, ko, NULL, &prc);
        if (!keep) {
                gbuf_alloc_obj(&s->ctx, sizeof(struct isal_gcm_context_data), (unsigned) _Alignof(struct isal_gcm_context_data));
                hidden_fill(s->ctx.p, s->ctx.len, 35);
        }
        gbuf aad, iv;
        pbuf(&aad, ab, ao, alen, c->t[11]);
        pbuf(&iv, ib, io, 12, c->t[12]);
        void *fn = is_api(s->fam) ? need("%saes_gcm_init_%d", api_pre(s->fam), s->bits) : need("_aes_gcm_init_%d_%s", s->bits, s->fam);
        uint64_t a[5] = { (uint64_t) s->kd.p, (uint64_t) s->ctx.p, (uint64_t) iv.p, (uint64_t) aad.p, alen };
        vc_begin();
        vc_input("key_data", &s->kd);
        vc_output("ctx", &s->ctx);
        vc_input("aad", &aad);
        vc_input("iv", &iv);
        uint64_t r = vcall(fn, 5, a, &o);
        ev_begin("GcmInit");
        ev_int("sid", sid);
        ev_str("fam", s->fam);
        ev_int("bits", s->bits);
        ev_desc2("key", kb, ko);
        ev_desc2("iv", ib, io);
        ev_desc3("aad", ab, ao, alen);
        ev_int("rc", !strcmp(s->fam, "isal") ? (long long) (int) r : 0);
        ev_int("prc", (long long) prc);
        ev_gctx(s);
        if (vc_dump_secrets)
                ev_hex("kd", s->kd.p, s->kd.len);
        ev_obs(&o);
        ev_end();
        gbuf_free(&aad);
        gbuf_free(&iv);
}

/* gcmu sid dir nt db do len inpl pin pout */
static void
do_gcmu(const cmd *c)
{
        int sid = (int) cmd_i(c, 1);
        struct gstream *s = &gs[sid];
        const char *dir = c->t[2];
        int nt = (int) cmd_i(c, 3);
        uint32_t db = (uint32_t) cmd_i(c, 4);
        uint64_t dof = (uint64_t) cmd_i(c, 5), len = (uint64_t) cmd_i(c, 6);
        int inpl = (int) cmd_i(c, 7);
        gbuf in, out;
        obs o;
        pbuf(&in, db, dof, len, c->t[8]);
        if (inpl)
                out = in;
        else
                obuf(&out, len, c->t[9], 36);
        void *fn = is_api(s->fam) ? need("%saes_gcm_%s_%d_update%s", api_pre(s->fam), dir, s->bits, nt ? "_nt" : "")
                                  : need("_aes_gcm_%s_%d_update_%s%s", dir, s->bits, s->fam, nt ? "_nt" : "");
        uint64_t a[5] = { (uint64_t) s->kd.p, (uint64_t) s->ctx.p, (uint64_t) out.p, (uint64_t) in.p, len };
        vc_begin();
        vc_input("key_data", &s->kd);
        vc_output("ctx", &s->ctx);
        if (inpl)
                vc_output("inout", &out);
        else {
                vc_input("in", &in);
                vc_output("out", &out);
        }
        uint64_t r = vcall(fn, 5, a, &o);
        ev_begin("GcmUpdate");
        ev_int("sid", sid);
        ev_str("dir", dir);
        ev_int("nt", nt);
        ev_desc3("data", db, dof, len);
        ev_int("inpl", inpl);
        ev_int("rc", !strcmp(s->fam, "isal") ? (long long) (int) r : 0);
        ev_hex("out", out.p, o.fault ? 0 : len);
        ev_gctx(s);
        ev_obs(&o);
        ev_end();
        gbuf_free(&in);
        if (!inpl)
                gbuf_free(&out);
}

/* gcmf sid dir tlen ptag */
static void
do_gcmf(const cmd *c)
{
        int sid = (int) cmd_i(c, 1);
        struct gstream *s = &gs[sid];
        const char *dir = c->t[2];
        uint64_t tlen = (uint64_t) cmd_i(c, 3);
        gbuf tag;
        obs o;
        obuf(&tag, tlen, c->t[4], 37);
        void *fn = is_api(s->fam) ? need("%saes_gcm_%s_%d_finalize", api_pre(s->fam), dir, s->bits)
                                  : need("_aes_gcm_%s_%d_finalize_%s", dir, s->bits, s->fam);
        uint64_t a[4] = { (uint64_t) s->kd.p, (uint64_t) s->ctx.p, (uint64_t) tag.p, tlen };
        vc_begin();
        vc_input("key_data", &s->kd);
        vc_output("ctx", &s->ctx);
        vc_output("tag", &tag);
        uint64_t r = vcall(fn, 4, a, &o);
        ev_begin("GcmFinal");
        ev_int("sid", sid);
        ev_str("dir", dir);
        ev_int("tlen", (long long) tlen);
        ev_int("rc", !strcmp(s->fam, "isal") ? (long long) (int) r : 0);
        ev_hex("tag", tag.p, o.fault ? 0 : tlen);
        ev_obs(&o);
        ev_end();
        gbuf_free(&tag);
}

/* ------------------------------------------------------------------ key expansion */
/* kexp fam bits kb ko pkey */
static void
do_kexp(const cmd *c)
{
        const char *fam = c->t[1];
        int bits = (int) cmd_i(c, 2);
        uint32_t kb = (uint32_t) cmd_i(c, 3);
        uint64_t ko = (uint64_t) cmd_i(c, 4);
        size_t n = (size_t) 16 * (size_t) (bits / 32 + 7);
        gbuf key, enc, dec;
        obs o;
        pbuf(&key, kb, ko, (size_t) bits / 8, c->t[5]);
        obuf(&enc, n, "a0", 41);
        obuf(&dec, n, "a16", 42);
        int precomp = !strcmp(fam, "precomp"); /* the deprecated one-call entry point aes_cbc_precomp(key, key_size, keys_blk) */
        gbuf blk;
        uint64_t r;
        if (precomp) {
                gbuf_alloc_obj(&blk, sizeof(struct isal_cbc_key_data), 16);
                hidden_fill(blk.p, blk.len, 47);
                if (bits < 256 && obj_reuse()) {
                        /* re-keying a live key object: it first holds the schedules of a 256-bit key of which the new, shorter
                         * key is a prefix */
                        static __thread uint8_t k256[32];
                        obs o2;
                        pat_fill(k256, kb, ko, 32);
                        uint64_t a0[3] = { (uint64_t) k256, 32, (uint64_t) blk.p };
                        vc_begin();
                        vcall(need("aes_cbc_precomp"), 3, a0, &o2);
                }
                uint64_t a[3] = { (uint64_t) key.p, (uint64_t) (bits / 8), (uint64_t) blk.p }; /* key_size in bytes (ISAL_CBC_128_BITS = 16) */
                vc_begin();
                vc_input("key", &key);
                vc_output("keys_blk", &blk);
                r = vcall(need("aes_cbc_precomp"), 3, a, &o);
                if (!o.fault) {
                        memcpy(enc.p, ((struct isal_cbc_key_data *) blk.p)->enc_keys, n);
                        memcpy(dec.p, ((struct isal_cbc_key_data *) blk.p)->dec_keys, n);
                }
                gbuf_free(&blk);
        } else {
                void *fn = is_api(fam) ? need("%saes_keyexp_%d", api_pre(fam), bits) : need("_aes_keyexp_%d_%s", bits, fam);
                uint64_t a[3] = { (uint64_t) key.p, (uint64_t) enc.p, (uint64_t) dec.p };
                vc_begin();
                vc_input("key", &key);
                vc_output("enc", &enc);
                vc_output("dec", &dec);
                r = vcall(fn, 3, a, &o);
                if (!o.fault && obj_reuse()) { /* expanding the same key again into the same buffers gives the same schedules */
                        vc_begin();
                        vc_input("key", &key);
                        vc_output("enc", &enc);
                        vc_output("dec", &dec);
                        r = vcall(fn, 3, a, &o);
                }
        }
        ev_begin("KeyExp");
        ev_str("fam", fam);
        ev_int("bits", bits);
        ev_desc2("key", kb, ko);
        ev_int("rc", (!strcmp(fam, "isal") || precomp) ? (long long) (int) r : 0);
        ev_hex("enc", enc.p, o.fault ? 0 : n);
        ev_hex("dec", dec.p, o.fault ? 0 : n);
        ev_obs(&o);
        ev_end();
        gbuf_free(&key);
        gbuf_free(&enc);
        gbuf_free(&dec);
}

/* expanded schedules through the library's own (dispatched) key expansion */
static void
expand(int bits, const uint8_t *key, uint8_t *enc, uint8_t *dec)
{
        obs o;
        uint64_t a[3] = { (uint64_t) key, (uint64_t) enc, (uint64_t) dec };
        vc_begin();
        vcall(need("_aes_keyexp_%d", bits), 3, a, &o);
        if (o.fault)
                die("fault in key expansion helper");
}

/* ------------------------------------------------------------------ CBC */
/* cbc fam bits dir kb ko ib io db do len inpl pin pout */
static void
do_cbc(const cmd *c)
{
        const char *fam = c->t[1];
        int bits = (int) cmd_i(c, 2);
        const char *dir = c->t[3];
        uint32_t kb = (uint32_t) cmd_i(c, 4), ib = (uint32_t) cmd_i(c, 6), db = (uint32_t) cmd_i(c, 8);
        uint64_t ko = (uint64_t) cmd_i(c, 5), io = (uint64_t) cmd_i(c, 7), dof = (uint64_t) cmd_i(c, 9), len = (uint64_t) cmd_i(c, 10);
        int inpl = (int) cmd_i(c, 11);
        gbuf keys, iv, in, out;
        obs o;
        uint8_t key[32];
        pat_fill(key, kb, ko, (size_t) bits / 8);
        gbuf_alloc_obj(&keys, sizeof(struct isal_cbc_key_data), 16); /* aes_cbc.h: must be 16 byte aligned */
        struct isal_cbc_key_data *kd = (void *) keys.p;
        hidden_fill(keys.p, keys.len, 43);
        expand(bits, key, kd->enc_keys, kd->dec_keys);
        pbuf(&iv, ib, io, 16, "a0");
        gbuf big;
        int joined = !inpl && joined_pair(&big, &in, &out, db, dof, len, c->t[13], 44);
        if (!joined) {
                pbuf(&in, db, dof, len, c->t[12]);
                if (inpl)
                        out = in;
                else
                        obuf(&out, len, c->t[13], 44);
        }
        void *fn = is_api(fam) ? need("%saes_cbc_%s_%d", api_pre(fam), dir, bits) : need("_aes_cbc_%s_%d_%s", dir, bits, fam);
        int enc = !strcmp(dir, "enc");
        /* aes_cbc.h: keys = "length of key size * key rounds or dec_keys of isal_cbc_key_data": half of the calls pass a
         * schedule of exactly 16 * (rounds + 1) bytes that ends at an inaccessible page */
        gbuf sched;
        int exact = (int) ((ko ^ (len >> 4) ^ kb) & 1);
        size_t slen = (size_t) 16 * (size_t) (bits / 32 + 7);
        if (exact) {
                gbuf_alloc(&sched, slen, PL_END, 0);
                memcpy(sched.p, enc ? kd->enc_keys : kd->dec_keys, slen);
        }
        uint64_t a[5] = { (uint64_t) in.p, (uint64_t) iv.p, exact ? (uint64_t) sched.p : (uint64_t) (enc ? kd->enc_keys : kd->dec_keys),
                          (uint64_t) out.p, len };
        vc_begin();
        if (exact)
                vc_input("sched", &sched);
        vc_input("keys", &keys);
        vc_input("iv", &iv);
        if (joined)
                vc_output("in+out", &big);
        else if (inpl)
                vc_output("inout", &out);
        else {
                vc_input("in", &in);
                vc_output("out", &out);
        }
        uint64_t r = vcall(fn, 5, a, &o);
        ev_begin("Cbc");
        ev_str("fam", fam);
        ev_int("bits", bits);
        ev_str("dir", dir);
        ev_desc2("key", kb, ko);
        ev_desc2("iv", ib, io);
        ev_desc3("data", db, dof, len);
        ev_int("inpl", inpl);
        ev_int("rc", !strcmp(fam, "isal") ? (long long) (int) r : 0);
        ev_hex("out", out.p, o.fault ? 0 : len);
        ev_obs(&o);
        ev_end();
        if (exact)
                gbuf_free(&sched);
        gbuf_free(&keys);
        gbuf_free(&iv);
        if (joined)
                gbuf_free(&big);
        gbuf_free(&in);
        if (!inpl)
                gbuf_free(&out);
}

/* ------------------------------------------------------------------ XTS */
/* xts fam bits dir exp k1b k1o k2b k2o tb to db do len inpl pin pout pk1 pk2 ptw */
static void
do_xts(const cmd *c)
{
        const char *fam = c->t[1];
        int bits = (int) cmd_i(c, 2);
        const char *dir = c->t[3];
        int exp = (int) cmd_i(c, 4);
        uint32_t k1b = (uint32_t) cmd_i(c, 5), k2b = (uint32_t) cmd_i(c, 7), tb = (uint32_t) cmd_i(c, 9), db = (uint32_t) cmd_i(c, 11);
        uint64_t k1o = (uint64_t) cmd_i(c, 6), k2o = (uint64_t) cmd_i(c, 8), to = (uint64_t) cmd_i(c, 10), dof = (uint64_t) cmd_i(c, 12);
        uint64_t len = (uint64_t) cmd_i(c, 13);
        int inpl = (int) cmd_i(c, 14);
        size_t kbytes = (size_t) bits / 8, sched = (size_t) 16 * (size_t) (bits / 32 + 7);
        int enc = !strcmp(dir, "enc");
        gbuf k1, k2, tw, in, out;
        obs o;
        int pl;
        unsigned al;
        if (!exp) {
                pbuf(&k1, k1b, k1o, kbytes, c->t[17]);
                pbuf(&k2, k2b, k2o, kbytes, c->t[18]);
        } else {
                uint8_t raw1[32], raw2[32];
                static __thread uint8_t e1[240] __attribute__((aligned(16))), d1[240] __attribute__((aligned(16)));
                static __thread uint8_t e2[240] __attribute__((aligned(16))), d2[240] __attribute__((aligned(16)));
                pat_fill(raw1, k1b, k1o, kbytes);
                pat_fill(raw2, k2b, k2o, kbytes);
                expand(bits, raw1, e1, d1);
                expand(bits, raw2, e2, d2);
                gbuf_parse_place(c->t[17], &pl, &al);
                gbuf_alloc(&k1, sched, pl, al);
                memcpy(k1.p, enc ? e1 : d1, sched);
                gbuf_parse_place(c->t[18], &pl, &al);
                gbuf_alloc(&k2, sched, pl, al);
                memcpy(k2.p, e2, sched);
        }
        pbuf(&tw, tb, to, 16, c->t[19]);
        gbuf big;
        int joined = !inpl && joined_pair(&big, &in, &out, db, dof, len, c->t[16], 45);
        if (!joined) {
                pbuf(&in, db, dof, len, c->t[15]);
                if (inpl)
                        out = in;
                else
                        obuf(&out, len, c->t[16], 45);
        }
        void *fn;
        const char *ek = exp ? "_expanded_key" : "";
        if (!strcmp(fam, "isal"))
                fn = need("isal_aes_xts_%s_%d%s", dir, bits, ek);
        else if (!strcmp(fam, "legacy"))
                fn = need("XTS_AES_%d_%s%s", bits, dir, ek);
        else if (!strcmp(fam, "int"))
                fn = need("_XTS_AES_%d_%s%s", bits, dir, ek);
        else
                fn = need("_XTS_AES_%d_%s%s_%s", bits, dir, ek, fam);
        uint64_t a[6] = { (uint64_t) k2.p, (uint64_t) k1.p, (uint64_t) tw.p, len, (uint64_t) in.p, (uint64_t) out.p };
        vc_begin();
        vc_input("k1", &k1);
        vc_input("k2", &k2);
        vc_input("tweak", &tw);
        if (joined)
                vc_output("in+out", &big);
        else if (inpl)
                vc_output("inout", &out);
        else {
                vc_input("in", &in);
                vc_output("out", &out);
        }
        uint64_t before = mem_sum(out.p, len);
        uint64_t before_tail = len > 64 ? mem_sum(out.p + len - 64, 64) : 0;
        uint64_t r = vcall(fn, 6, a, &o);
        ev_begin("Xts");
        ev_str("fam", fam);
        ev_int("bits", bits);
        ev_str("dir", dir);
        ev_int("exp", exp);
        ev_desc2("k1", k1b, k1o);
        ev_desc2("k2", k2b, k2o);
        ev_desc2("tw", tb, to);
        ev_desc3("data", db, dof, len);
        ev_int("inpl", inpl);
        ev_int("rc", !strcmp(fam, "isal") ? (long long) (int) r : 0);
        ev_int("untouched", o.fault ? 0 : before == mem_sum(out.p, len));
        if (len > (1u << 20)) {
                /* very long data units (up to the legal maximum of 2^24 bytes): TLC checks the first three blocks, the return code
                 * and that the end of the buffer was written at all */
                ev_int("big", 1);
                ev_int("tailwritten", o.fault ? 0 : before_tail != mem_sum(out.p + len - 64, 64));
                ev_hex("out", out.p, o.fault ? 0 : 48);
        } else
                ev_hex("out", out.p, (o.fault || len < 16) ? 0 : len); /* below 16 bytes the call is a documented no-op */
        ev_obs(&o);
        ev_end();
        gbuf_free(&k1);
        gbuf_free(&k2);
        gbuf_free(&tw);
        if (joined)
                gbuf_free(&big);
        gbuf_free(&in);
        if (!inpl)
                gbuf_free(&out);
}

int
aes_cmd(const cmd *c)
{
        if (!strcmp(c->t[0], "gcmmove")) { /* the caller relocates the context of a live streaming session */
                struct gstream *g = &gs[(int) cmd_i(c, 1)];
                if (g->used)
                        gbuf_move_obj(&g->ctx, (unsigned) _Alignof(struct isal_gcm_context_data));
        } else if (!strcmp(c->t[0], "gcm"))
                do_gcm(c);
        else if (!strcmp(c->t[0], "gcmi"))
                do_gcmi(c);
        else if (!strcmp(c->t[0], "gcmu"))
                do_gcmu(c);
        else if (!strcmp(c->t[0], "gcmf"))
                do_gcmf(c);
        else if (!strcmp(c->t[0], "kexp"))
                do_kexp(c);
        else if (!strcmp(c->t[0], "cbc"))
                do_cbc(c);
        else if (!strcmp(c->t[0], "xts"))
                do_xts(c);
        else
                return 0;
        return 1;
}
