/* drv_mh.c - multi-hash (mh_sha1, mh_sha256, mh_sha1_murmur3_x64_128) and rolling-hash behaviours. */
#define _GNU_SOURCE
#include "core.h"
#include <string.h>
#include <stdlib.h>
#include <stdarg.h>
#include <mh_sha1.h>
#include <mh_sha256.h>
#include <mh_sha1_murmur3_x64_128.h>
#include <rolling_hashx.h>

static void *
need(const char *fmt, ...)
{
        char nm[160];
        va_list ap;
        va_start(ap, fmt);
        vsnprintf(nm, sizeof nm, fmt, ap);
        va_end(ap);
        void *f = sym_lookup(nm);
        if (!f)
                die("no symbol %s", nm);
        return f;
}

#define NS 8
static __thread struct mhs {
        int used, kind; /* 0 sha1 1 sha256 2 murmur */
        char fam[16];
        gbuf ctx;
        void *f_upd, *f_fin;
        int isal;
} ms[NS];
#include <stddef.h>
static const size_t ktotal[] = { offsetof(struct isal_mh_sha1_ctx, total_length), offsetof(struct isal_mh_sha256_ctx, total_length),
                                 offsetof(struct isal_mh_sha1_murmur3_x64_128_ctx, total_length) };
static const size_t kpbuf[] = { offsetof(struct isal_mh_sha1_ctx, partial_block_buffer), offsetof(struct isal_mh_sha256_ctx, partial_block_buffer),
                                offsetof(struct isal_mh_sha1_murmur3_x64_128_ctx, partial_block_buffer) };
static const char *kname[] = { "mh_sha1", "mh_sha256", "mh_sha1_murmur3_x64_128" };
static const unsigned kalign[] = { (unsigned) _Alignof(struct isal_mh_sha1_ctx), (unsigned) _Alignof(struct isal_mh_sha256_ctx),
                                  (unsigned) _Alignof(struct isal_mh_sha1_murmur3_x64_128_ctx) };
static const size_t ksize[] = { sizeof(struct isal_mh_sha1_ctx), sizeof(struct isal_mh_sha256_ctx),
                                sizeof(struct isal_mh_sha1_murmur3_x64_128_ctx) };

static void
words_be_hex(const uint8_t *p, int nwords, char *out)
{
        static const char hx[] = "0123456789abcdef";
        int n = 0;
        for (int w = 0; w < nwords; w++)
                for (int b = 3; b >= 0; b--) {
                        out[n++] = hx[p[4 * w + b] >> 4];
                        out[n++] = hx[p[4 * w + b] & 15];
                }
        out[n] = 0;
}

/* mhinit sid alg fam seedhi seedlo */
static void
do_mhinit(const cmd *c)
{
        int sid = (int) cmd_i(c, 1);
        struct mhs *s = &ms[sid];
        int newkind = !strcmp(c->t[2], "sha1") ? 0 : !strcmp(c->t[2], "sha256") ? 1 : 2;
        /* re-initialising a live object in place is legal: sometimes keep the storage (and whatever the last stream left in it) */
        int keep = s->used && s->kind == newkind && obj_reuse();
        if (s->used && !keep)
                gbuf_free(&s->ctx);
        s->used = 1;
        s->kind = newkind;
        snprintf(s->fam, sizeof s->fam, "%s", c->t[3]);
        uint64_t seed = ((uint64_t) (uint32_t) cmd_i(c, 4) << 32) | (uint32_t) cmd_i(c, 5);
        const char *k = kname[s->kind];
        void *f_init;
        s->isal = !strcmp(s->fam, "isal");
        if (s->isal) {
                f_init = need("isal_%s_init", k);
                s->f_upd = need("isal_%s_update", k);
                s->f_fin = need("isal_%s_finalize", k);
        } else if (!strcmp(s->fam, "legacy")) {
                f_init = need("%s_init", k);
                s->f_upd = need("%s_update", k);
                s->f_fin = need("%s_finalize", k);
        } else if (!strcmp(s->fam, "legacy_base")) {
                f_init = need("%s_init", k);
                s->f_upd = need("%s_update_base", k);
                s->f_fin = need("%s_finalize_base", k);
        } else {
                f_init = need("_%s_init", k);
                s->f_upd = need("_%s_update_%s", k, s->fam);
                s->f_fin = need("_%s_finalize_%s", k, s->fam);
        }
        if (!keep) {
                gbuf_alloc_obj(&s->ctx, ksize[s->kind], kalign[s->kind]);
                hidden_fill(s->ctx.p, s->ctx.len, 51);
        }
        obs o;
        uint64_t a[2] = { (uint64_t) s->ctx.p, seed };
        vc_begin();
        vc_output("ctx", &s->ctx);
        uint64_t r = vcall(f_init, s->kind == 2 ? 2 : 1, a, &o);
        ev_begin("MhInit");
        ev_int("sid", sid);
        ev_str("alg", c->t[2]);
        ev_str("fam", s->fam);
        {
                uint8_t sb[8];
                memcpy(sb, &seed, 8);
                ev_hex("seed", sb, 8);
        }
        ev_int("rc", (long long) (int) r);
        ev_obs(&o);
        ev_end();
}

/* mhupd sid b off len place */
static void
do_mhupd(const cmd *c)
{
        int sid = (int) cmd_i(c, 1);
        struct mhs *s = &ms[sid];
        uint32_t b = (uint32_t) cmd_i(c, 2);
        uint64_t off = (uint64_t) cmd_i(c, 3), len = (uint64_t) cmd_i(c, 4);
        int pl;
        unsigned al;
        gbuf in;
        int huge = len > (64u << 20);
        gbuf_parse_place(c->t[5], &pl, &al);
        if (huge) {
                memset(&in, 0, sizeof in);
                in.p = huge_window(b) + (off & (PAT_PERIOD - 1));
        } else {
                gbuf_alloc(&in, len, pl, al);
                pat_fill(in.p, b, off, len);
        }
        obs o;
        uint64_t a[3] = { (uint64_t) s->ctx.p, (uint64_t) in.p, len };
        vc_begin();
        vc_output("ctx", &s->ctx);
        if (!huge)
                vc_input("in", &in);
        uint64_t r = vcall(s->f_upd, 3, a, &o);
        ev_begin("MhUpdate");
        ev_int("sid", sid);
        {
                char sb[96];
                snprintf(sb, sizeof sb, "[%u,%llu,%llu,%llu]", b, (unsigned long long) (off & (PAT_PERIOD - 1)), (unsigned long long) (len >> 20),
                         (unsigned long long) (len & 0xFFFFF));
                ev_raw("data", sb);
        }
        ev_int("rc", (long long) (int) r);
        if (!o.fault) {
                /* implementation-shaped observation (MhCarry): running total and the carried bytes of the public context */
                uint64_t tl;
                char sb[64];
                memcpy(&tl, (uint8_t *) s->ctx.p + ktotal[s->kind], 8);
                snprintf(sb, sizeof sb, "[%llu,%llu]", (unsigned long long) (tl >> 20), (unsigned long long) (tl & 0xFFFFF));
                ev_raw("tl", sb);
                ev_hex("pb", (uint8_t *) s->ctx.p + kpbuf[s->kind], (size_t) (tl % 1024));
        }
        ev_obs(&o);
        ev_end();
        if (!huge)
                gbuf_free(&in);
}

/* mhfin sid */
static void
do_mhfin(const cmd *c)
{
        int sid = (int) cmd_i(c, 1);
        struct mhs *s = &ms[sid];
        int nw = s->kind == 1 ? 8 : 5;
        gbuf dig, mur;
        gbuf_alloc(&dig, (size_t) nw * 4, PL_END, 0);
        hidden_fill(dig.p, dig.len, 52);
        gbuf_alloc(&mur, 16, PL_END, 0);
        hidden_fill(mur.p, 16, 53);
        obs o;
        uint64_t a[3] = { (uint64_t) s->ctx.p, (uint64_t) dig.p, (uint64_t) mur.p };
        vc_begin();
        vc_output("ctx", &s->ctx);
        vc_output("digest", &dig);
        vc_output("murmur", &mur);
        uint64_t r = vcall(s->f_fin, s->kind == 2 ? 3 : 2, a, &o);
        char hx[80];
        words_be_hex(dig.p, nw, hx);
        ev_begin("MhFinal");
        ev_int("sid", sid);
        ev_int("rc", (long long) (int) r);
        ev_str("dig", o.fault ? "" : hx);
        if (!o.fault) { /* implementation-shaped: the context's own digest field (first member of all three context types) */
                char hx2[80];
                words_be_hex(s->ctx.p, nw, hx2);
                ev_str("cdig", hx2);
        }
        if (s->kind == 2)
                ev_hex("mur", mur.p, o.fault ? 0 : 16);
        else
                ev_str("mur", "");
        ev_obs(&o);
        ev_end();
        gbuf_free(&dig);
        gbuf_free(&mur);
}

/* ------------------------------------------------------------------ rolling hash */
typedef uint64_t (*scan_fn)(uint32_t *, int, uint64_t *, uint64_t *, uint8_t *, uint8_t *, uint64_t, uint64_t, uint64_t);
extern uint64_t __real__rolling_hash2_run_until(uint32_t *, int, uint64_t *, uint64_t *, uint8_t *, uint8_t *, uint64_t, uint64_t,
                                                uint64_t);
static __thread scan_fn rh_scan;
/* link seam (-Wl,--wrap=_rolling_hash2_run_until): route the inner scan to a chosen implementation */
uint64_t
__wrap__rolling_hash2_run_until(uint32_t *idx, int max_idx, uint64_t *t1, uint64_t *t2, uint8_t *b1, uint8_t *b2, uint64_t h,
                                uint64_t mask, uint64_t trigger)
{
        return (rh_scan ? rh_scan : __real__rolling_hash2_run_until)(idx, max_idx, t1, t2, b1, b2, h, mask, trigger);
}

static __thread struct rhs {
        int used, isal;
        gbuf st;
        void *f_reset, *f_run;
        char fam[16], scan[8];
        uint64_t cursor; /* bytes of the stream consumed so far: the caller resumes where the library stopped */
} rs[NS];

/* rhuntil scan w b off len mask trig place : the exported inner scan called directly */
static void
do_rhuntil(const cmd *c)
{
        const char *scan = c->t[1];
        uint32_t w = (uint32_t) cmd_i(c, 2), b = (uint32_t) cmd_i(c, 3);
        uint64_t off = (uint64_t) cmd_i(c, 4), len = (uint64_t) cmd_i(c, 5);
        uint32_t mask = (uint32_t) cmd_i(c, 6), trig = (uint32_t) cmd_i(c, 7);
        int pl;
        unsigned al;
        gbuf in, idxp;
        static __thread struct isal_rh_state2 st;
        gbuf_parse_place(c->t[8], &pl, &al);
        gbuf_alloc(&in, w + len, pl, al);
        pat_fill(in.p, b, off, w + len);
        gbuf_alloc(&idxp, 4, PL_END, 0);
        *(uint32_t *) idxp.p = 0;
        {       /* tables and the hash of the first window from the library's own (muted) init / reset */
                obs o0;
                uint64_t a0[2] = { (uint64_t) &st, w };
                vc_begin();
                vcall(need("_rolling_hash2_init"), 2, a0, &o0);
                uint64_t a1[2] = { (uint64_t) &st, (uint64_t) in.p };
                vc_begin();
                vcall(need("_rolling_hash2_reset"), 2, a1, &o0);
        }
        obs o;
        uint64_t a[9] = { (uint64_t) idxp.p, len, (uint64_t) st.table1, (uint64_t) st.table2, (uint64_t) (in.p + w), (uint64_t) in.p,
                          st.hash, mask, trig };
        vc_begin();
        vc_input("in", &in);
        vc_output("idx", &idxp);
        uint64_t h = vcall(need("_rolling_hash2_run_until_%s", scan), 9, a, &o);
        ev_begin("RhUntil");
        ev_str("scan", scan);
        ev_int("w", w);
        {
                char sb[96];
                snprintf(sb, sizeof sb, "[%u,%llu,%llu]", b, (unsigned long long) (off & (PAT_PERIOD - 1)), (unsigned long long) len);
                ev_raw("data", sb);
        }
        ev_hex("mask", &mask, 4);
        ev_hex("trig", &trig, 4);
        ev_int("idx", o.fault ? -1 : (long long) (*(uint32_t *) idxp.p & 0x7fffffff));
        ev_hex("hash", &h, 8);
        ev_obs(&o);
        ev_end();
        gbuf_free(&in);
        gbuf_free(&idxp);
}

/* rhinit sid fam scan w */
static void
do_rhinit(const cmd *c)
{
        int sid = (int) cmd_i(c, 1);
        struct rhs *s = &rs[sid];
        int keep = s->used && obj_reuse();
        if (s->used && !keep)
                gbuf_free(&s->st);
        s->used = 1;
        snprintf(s->fam, sizeof s->fam, "%s", c->t[2]);
        snprintf(s->scan, sizeof s->scan, "%s", c->t[3]);
        uint32_t w = (uint32_t) cmd_i(c, 4);
        const char *pre = !strcmp(s->fam, "isal") ? "isal_" : !strcmp(s->fam, "legacy") ? "" : "_";
        s->isal = !strcmp(s->fam, "isal");
        void *f_init = need("%srolling_hash2_init", pre);
        s->f_reset = need("%srolling_hash2_reset", pre);
        s->f_run = need("%srolling_hash2_run", pre);
        if (!keep) {
                gbuf_alloc_obj(&s->st, sizeof(struct isal_rh_state2), (unsigned) _Alignof(struct isal_rh_state2));
                hidden_fill(s->st.p, s->st.len, 61);
        }
        obs o;
        uint64_t a[2] = { (uint64_t) s->st.p, w };
        vc_begin();
        vc_output("state", &s->st);
        uint64_t r = vcall(f_init, 2, a, &o);
        ev_begin("RhInit");
        ev_int("sid", sid);
        ev_str("fam", s->fam);
        ev_str("scan", s->scan);
        ev_int("w", w);
        ev_int("rc", (long long) (int) r);
        ev_obs(&o);
        ev_end();
}

static void
set_scan(struct rhs *s)
{
        if (!strcmp(s->scan, "disp"))
                rh_scan = NULL;
        else
                rh_scan = (scan_fn) need("_rolling_hash2_run_until_%s", s->scan);
}

/* rhreset sid b off */
static void
do_rhreset(const cmd *c)
{
        int sid = (int) cmd_i(c, 1);
        struct rhs *s = &rs[sid];
        uint32_t b = (uint32_t) cmd_i(c, 2);
        uint64_t off = (uint64_t) cmd_i(c, 3);
        uint32_t w = ((struct isal_rh_state2 *) s->st.p)->w;
        gbuf in;
        gbuf_alloc(&in, w, PL_END, 0);
        pat_fill(in.p, b, off, w);
        obs o;
        uint64_t a[2] = { (uint64_t) s->st.p, (uint64_t) in.p };
        vc_begin();
        vc_output("state", &s->st);
        vc_input("init", &in);
        uint64_t r = vcall(s->f_reset, 2, a, &o);
        s->cursor = 0;
        ev_begin("RhReset");
        ev_int("sid", sid);
        {
                char sb[64];
                snprintf(sb, sizeof sb, "[%u,%llu]", b, (unsigned long long) (off & (PAT_PERIOD - 1)));
                ev_raw("init", sb);
        }
        ev_int("rc", s->isal ? (long long) (int) r : 0);
        ev_hex("hash", &((struct isal_rh_state2 *) s->st.p)->hash, 8);
        ev_obs(&o);
        ev_end();
        gbuf_free(&in);
}

/* rhrun sid b off len mask trigger place */
static void
do_rhrun(const cmd *c)
{
        int sid = (int) cmd_i(c, 1);
        struct rhs *s = &rs[sid];
        uint32_t b = (uint32_t) cmd_i(c, 2);
        uint64_t off = (uint64_t) cmd_i(c, 3) + s->cursor, len = (uint64_t) cmd_i(c, 4);
        uint32_t mask = (uint32_t) cmd_i(c, 5), trig = (uint32_t) cmd_i(c, 6);
        int pl;
        unsigned al;
        gbuf in, offp, matchp;
        gbuf_parse_place(c->t[7], &pl, &al);
        gbuf_alloc(&in, len, pl, al);
        pat_fill(in.p, b, off, len);
        gbuf_alloc(&offp, 4, PL_END, 0);
        gbuf_alloc(&matchp, 4, PL_END, 0);
        memset(offp.p, 0xAA, 4);
        memset(matchp.p, 0xAA, 4);
        set_scan(s);
        obs o;
        uint64_t r;
        vc_begin();
        vc_output("state", &s->st);
        vc_input("in", &in);
        vc_output("offset", &offp);
        vc_output("match", &matchp);
        int match;
        if (s->isal) {
                uint64_t a[7] = { (uint64_t) s->st.p, (uint64_t) in.p, len, mask, trig, (uint64_t) offp.p, (uint64_t) matchp.p };
                r = vcall(s->f_run, 7, a, &o);
                match = *(int *) matchp.p;
        } else {
                uint64_t a[6] = { (uint64_t) s->st.p, (uint64_t) in.p, len, mask, trig, (uint64_t) offp.p };
                r = vcall(s->f_run, 6, a, &o);
                match = (int) r;
                r = 0;
        }
        if (!o.fault)
                s->cursor += *(uint32_t *) offp.p;
        ev_begin("RhRun");
        ev_int("sid", sid);
        {
                char sb[96];
                snprintf(sb, sizeof sb, "[%u,%llu,%llu]", b, (unsigned long long) (off & (PAT_PERIOD - 1)), (unsigned long long) len);
                ev_raw("data", sb);
        }
        ev_hex("mask", &mask, 4);
        ev_hex("trig", &trig, 4);
        ev_int("rc", (long long) (int) r);
        ev_int("off", o.fault ? -1 : (long long) (*(uint32_t *) offp.p & 0x7fffffff));
        ev_int("match", o.fault ? -1 : match);
        ev_hex("hash", &((struct isal_rh_state2 *) s->st.p)->hash, 8);
        {       /* implementation-shaped observation: the saved window of the public state */
                struct isal_rh_state2 *st = (struct isal_rh_state2 *) s->st.p;
                ev_hex("hist", st->history, o.fault || st->w > ISAL_FINGERPRINT_MAX_WINDOW ? 0 : st->w);
        }
        ev_obs(&o);
        ev_end();
        gbuf_free(&in);
        gbuf_free(&offp);
        gbuf_free(&matchp);
}

/* rhmask mean shift */
static void
do_rhmask(const cmd *c)
{
        uint32_t mean = (uint32_t) cmd_i(c, 1), shift = (uint32_t) cmd_i(c, 2);
        int only_legacy = c->n > 3 && !strcmp(c->t[3], "legacy"); /* FIPS-build pass: the isal_ spelling refuses there */
        obs o;
        if (!only_legacy) {
                gbuf m;
                gbuf_alloc(&m, 4, PL_END, 0);
                uint64_t a[3] = { mean, shift, (uint64_t) m.p };
                vc_begin();
                vc_output("mask", &m);
                uint64_t r = vcall(need("isal_rolling_hashx_mask_gen"), 3, a, &o);
                ev_begin("RhMask");
                ev_int("mean", mean & 0x7fffffff);
                ev_int("shift", shift);
                ev_int("rc", (long long) (int) r);
                ev_hex("mask", m.p, 4);
                ev_obs(&o);
                ev_end();
                gbuf_free(&m);
        }
        if (shift < 32) { /* the deprecated spelling: uint32_t rolling_hashx_mask_gen(long mean, int shift) */
                uint64_t b[2] = { mean, shift };
                vc_begin();
                uint32_t rv = (uint32_t) vcall(need("rolling_hashx_mask_gen"), 2, b, &o);
                ev_begin("RhMask");
                ev_int("mean", mean & 0x7fffffff);
                ev_int("shift", shift);
                ev_int("rc", 0);
                ev_hex("mask", &rv, 4);
                ev_obs(&o);
                ev_end();
        }
}

int
mh_cmd(const cmd *c)
{
        if (!strcmp(c->t[0], "mhmove")) { /* the caller relocates a live multi-hash context */
                struct mhs *m = &ms[(int) cmd_i(c, 1)];
                if (m->used)
                        gbuf_move_obj(&m->ctx, kalign[m->kind]);
        } else if (!strcmp(c->t[0], "rhmove")) {
                struct rhs *r = &rs[(int) cmd_i(c, 1)];
                if (r->used)
                        gbuf_move_obj(&r->st, (unsigned) _Alignof(struct isal_rh_state2));
        } else if (!strcmp(c->t[0], "rhuntil"))
                do_rhuntil(c);
        else if (!strcmp(c->t[0], "mhinit"))
                do_mhinit(c);
        else if (!strcmp(c->t[0], "mhupd"))
                do_mhupd(c);
        else if (!strcmp(c->t[0], "mhfin"))
                do_mhfin(c);
        else if (!strcmp(c->t[0], "rhinit"))
                do_rhinit(c);
        else if (!strcmp(c->t[0], "rhreset"))
                do_rhreset(c);
        else if (!strcmp(c->t[0], "rhrun"))
                do_rhrun(c);
        else if (!strcmp(c->t[0], "rhmask"))
                do_rhmask(c);
        else
                return 0;
        return 1;
}
