------------------------------ MODULE MultiHash ------------------------------
(***************************************************************************)
(* The multi-hash construction (C05, C10) as an executable definition:     *)
(*  1. pad the stream in SHA style to a multiple of 1024 bytes: 0x80,      *)
(*     zeros, 64-bit big-endian bit length in the last 8 bytes;            *)
(*  2. view each 1024-byte block as 256 four-byte words and deal them      *)
(*     round-robin to 16 segments (word i goes to segment i mod 16), so    *)
(*     every block feeds one 64-byte SHA block to every segment;           *)
(*  3. hash every segment with the raw compression function of SHA-1       *)
(*     (SHA-256) from the standard initial value - no padding;             *)
(*  4. write the 16 segment digests as a word matrix (word k of segment j  *)
(*     at [k][j], each word in little-endian byte order, the in-memory     *)
(*     layout of the reference) and hash that with the standard, padded,   *)
(*     SHA-1 (SHA-256).                                                    *)
(* The digest is given in the standard byte order of the outer hash.       *)
(* Stitched variant (C10): the pair of MhDigest("sha1", m) and             *)
(* MurmurHash3_x64_128(m) with both state words initialised to the seed.   *)
(***************************************************************************)
EXTENDS Naturals, Sequences, SequencesExt, HashStd

MhBlock == 1024
Segs16 == 16
\* SHA-style padding of an n-byte stream to a multiple of 1024 with a 64-bit length (n < 2^28 here)
MhPad(n) == LET z == (MhBlock - ((n + 1 + 8) % MhBlock)) % MhBlock
            IN << 128 >> \o [i \in 1..z |-> 0] \o BE(n \div (2 ^ 21), 5) \o BE((n % (2 ^ 21)) * 8, 3)
MhTailBlocks(n) == ((n % MhBlock) + Len(MhPad(n))) \div MhBlock      \* 1, or 2 iff n mod 1024 > 1015

\* the 64 bytes segment j (0..15) receives from 1024-byte block blk
SegBlock(blk, j) == FoldLeft(LAMBDA acc, t : acc \o SubSeq(blk, 4 * (16 * t + j) + 1, 4 * (16 * t + j) + 4),
                             << >>, [t \in 1..16 |-> t - 1])

\* chaining values of the 16 segments after all blocks of the padded stream
SegStates(alg, m) ==
  LET nb == Len(m) \div MhBlock
  IN FoldLeft(LAMBDA sts, b : LET blk == SubSeq(m, (b - 1) * MhBlock + 1, b * MhBlock)
                              IN [j \in 1..Segs16 |-> Compress(alg, sts[j], SegBlock(blk, j - 1))],
              [j \in 1..Segs16 |-> IV(alg)], [b \in 1..nb |-> b])

Rev4(s) == << s[4], s[3], s[2], s[1] >>
\* digest matrix as the byte string that is hashed last
Matrix(alg, sts) ==
  LET nw == DigestLen(alg) \div 4
  IN FoldLeft(LAMBDA acc, k : acc \o FoldLeft(LAMBDA a2, j : a2 \o Rev4(SubSeq(sts[j], 4 * (k - 1) + 1, 4 * k)),
                                               << >>, [j \in 1..Segs16 |-> j]),
              << >>, [k \in 1..nw |-> k])

MhDigest(alg, msg) == Digest(alg, Matrix(alg, SegStates(alg, msg \o MhPad(Len(msg)))))

Stitched(msg, seed8) == [mh |-> MhDigest("sha1", msg), mur |-> Murmur3x64128(msg, seed8)]
=============================================================================
