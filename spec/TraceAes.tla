------------------------------ MODULE TraceAes ------------------------------
(***************************************************************************)
(* Trace validation of the AES entry points (C02 C03 C04 C07, and the      *)
(* machine contracts C08 C14 C19 C18 on the same events).                  *)
(*                                                                         *)
(* One-shot operations are stateless: the event carries the arguments as   *)
(* pattern descriptors and the output bytes; TLC evaluates the mode        *)
(* definition of AesModes on the same arguments.                           *)
(*                                                                         *)
(* GCM streaming is the state machine GcmStream below: per stream id the   *)
(* spec keeps key, IV, AAD, the number of bytes consumed (pos) and the     *)
(* ciphertext so far (ct).  An update must output exactly the bytes        *)
(* data XOR KeyStream[pos, pos+len), whatever the segmentation; finalize   *)
(* must produce the one-shot tag of the concatenation (C07).               *)
(***************************************************************************)
EXTENDS AesModes, Machine, TraceLib, FiniteSets

VARIABLES l, gst, viol
tvars == << l, gst, viol >>

Key(e) == PatBytes(e.key[1], e.key[2], e.bits \div 8)
Data(e) == PatBytes(e.data[1], e.data[2], e.data[3])

MayBind(fam) == fam \in {"isal", "legacy", "int", "precomp"}

(***************************************************************************)
(* C14: secrets that must not survive in vector registers or dead stack.   *)
(* The driver dumps zmm0-31 (e.zmm) and every 16-byte granule of the 64    *)
(* KiB below the call that no longer holds the prefill pattern (e.dstk)    *)
(* when the behaviour file asks for it; the spec computes the secrets.     *)
(***************************************************************************)
Trivial(s) == \A i \in 1..Len(s) : s[i] = s[1]
\* secrets are pairs << kind, 16 bytes >>
KeySecrets(key) ==
  LET rk == FastRoundKeys(key)  dk == FastDecRoundKeys(key)
  IN {<< "round-key", rk[i] >> : i \in 1..Len(rk)} \cup {<< "dec-round-key", dk[i] >> : i \in 1..Len(dk)}
     \cup {<< "raw-key", SubSeq(key, 16 * (i - 1) + 1, 16 * i) >> : i \in 1..(Len(key) \div 16)}
Chunks16(hex) == LET b == FromHex(hex) IN {<< "key-data", SubSeq(b, 16 * (i - 1) + 1, 16 * i) >> : i \in 1..(Len(b) \div 16)}
Where(e, s) == IF HexHas(e.zmm, ToHex(s)) THEN "reg" ELSE "stack"
Leaked(e, secrets) ==
  {s \in secrets : ~Trivial(s[2]) /\ (HexHas(e.zmm, ToHex(s[2])) \/ HexHas(e.dstk, ToHex(s[2])))}
LeakChecks(e, fam, secrets, what) ==
  IF "zmm" \in DOMAIN e
  THEN LET lk == Leaked(e, secrets)
           kinds == {<< s[1], Where(e, s[2]) >> : s \in lk}
       \* one record per (kind of secret, register/stack) so that findings can be told apart
       IN Chk(lk = {}, "C14", what, l, << e.e, fam, kinds >>)
  ELSE << >>

MachineChecks(e, fam) ==
     Chk(ABIOk(e.obs), "C19", "abi", l, << e.e, fam, e.obs >>)
  \o Chk(NoFault(e.obs), "FAULT", "call-faulted", l, << e.e, fam, e.obs.fault, e.obs.fw >>)
  \o Chk(MemOk(e.obs), "C08", "mem", l, << e.e, fam, e.obs >>)
  \o Chk(StaticOk(e.obs, MayBind(fam)), "C18", "static-write", l, << e.e, fam, e.obs.stsym >>)

IsEv(name) == l <= NEv /\ Tr[l].e = name
Step(v) == /\ l' = l + 1
           /\ viol' = Cap(viol \o v)
           /\ PubResult(viol', l')

TInit == l = 1 /\ gst = << >> /\ viol = << >> /\ PubResult(<< >>, 1)

GcmSecrets(e, key) ==
  KeySecrets(key) \cup {<< "hash-key", HashKey(key) >>} \cup (IF "kd" \in DOMAIN e THEN Chunks16(e.kd) ELSE {})

\* ---- GCM key precompute (C14 only: the functional content of key_data is checked through every cipher call)
TGcmPre ==
  /\ IsEv("GcmPre") /\ UNCHANGED gst
  /\ LET e == Tr[l]  key == Key(e) IN
     Step(IF e.obs.fault # 0 THEN MachineChecks(e, e.fam)
          ELSE    LeakChecks(e, e.fam, GcmSecrets(e, key), "gcm-pre-key-material-left")
               \o MachineChecks(e, e.fam))

\* ---- GCM one-shot (C02)
TGcm ==
  /\ IsEv("Gcm") /\ UNCHANGED gst
  /\ LET e == Tr[l]
         key == Key(e)
         iv == PatBytes(e.iv[1], e.iv[2], 12)
         aad == PatBytes(e.aad[1], e.aad[2], e.aad[3])
         r == IF e.dir = "enc" THEN GcmEnc(key, iv, aad, Data(e), e.tlen) ELSE GcmDec(key, iv, aad, Data(e), e.tlen)
         info == << e.fam, e.bits, e.dir, e.nt, e.data[3], e.aad[3], e.tlen, e.inpl >>
     IN Step(IF e.obs.fault # 0 THEN MachineChecks(e, e.fam)
             ELSE    Chk(e.out = ToHex(r.out), "C02", "gcm-output", l, info)
                  \o Chk(e.tag = ToHex(r.tag), "C02", "gcm-tag", l, info \o << e.tag, ToHex(r.tag) >>)
                  \o Chk(e.rc = 0 /\ e.prc = 0, "C16", "gcm-rc", l, info \o << e.rc, e.prc >>)
                  \o LeakChecks(e, e.fam, GcmSecrets(e, key), "gcm-key-material-left")
                  \o MachineChecks(e, e.fam))

\* ---- GCM streaming (C07): the state machine
TGcmInit ==
  /\ IsEv("GcmInit")
  /\ LET e == Tr[l]
         s == [fam |-> e.fam, bits |-> e.bits, key |-> Key(e), iv |-> PatBytes(e.iv[1], e.iv[2], 12),
               aad |-> PatBytes(e.aad[1], e.aad[2], e.aad[3]), pos |-> 0, ct |-> << >>, ok |-> e.obs.fault = 0,
               \* the precomputed key data (shifted hash-key powers, round keys) stays secret for the whole session
               kd |-> IF "kd" \in DOMAIN e THEN Chunks16(e.kd) ELSE {}]
     IN /\ gst' = [x \in (DOMAIN gst) \cup {e.sid} |-> IF x = e.sid THEN s ELSE gst[x]]
        /\ Step(   Chk(e.obs.fault # 0 \/ e.cx = << 0, 0, e.aad[3] >>, "DRIFT", "gcm-context-fields-after-init", l, << e.fam, e.cx >>)
                \o Chk(e.rc = 0 /\ e.prc = 0, "C16", "gcm-init-rc", l, << e.fam, e.rc, e.prc >>)
                \o LeakChecks(e, e.fam, GcmSecrets(e, Key(e)), "gcm-key-material-left")
                \o MachineChecks(e, e.fam))

TGcmUpdate ==
  /\ IsEv("GcmUpdate")
  /\ LET e == Tr[l]  s == gst[e.sid]
         d == Data(e)
         exp == XorBytes(d, KeyStream(s.key, s.iv, s.pos, Len(d)))
         newct == IF e.dir = "enc" THEN exp ELSE d
         info == << s.fam, s.bits, e.dir, e.nt, s.pos, Len(d), e.inpl >>
     IN /\ gst' = [gst EXCEPT ![e.sid] = [s EXCEPT !.pos = s.pos + Len(d), !.ct = s.ct \o newct,
                                                  !.ok = s.ok /\ e.obs.fault = 0]]
        /\ Step(IF ~s.ok \/ e.obs.fault # 0 THEN MachineChecks(e, s.fam)
                ELSE    Chk(e.out = ToHex(exp), "C07", "gcm-update-output", l, info)
                     \o Chk(e.cx[1] = s.pos + Len(d) /\ e.cx[2] % 16 = (s.pos + Len(d)) % 16 /\ e.cx[3] = Len(s.aad), "DRIFT",
                            "gcm-context-fields", l, info \o << e.cx >>)
                     \o Chk(e.rc = 0, "C16", "gcm-update-rc", l, info \o << e.rc >>)
                     \o LeakChecks(e, s.fam, KeySecrets(s.key) \cup {<< "hash-key", HashKey(s.key) >>} \cup s.kd, "gcm-key-material-left")
                     \o MachineChecks(e, s.fam))

TGcmFinal ==
  /\ IsEv("GcmFinal") /\ UNCHANGED gst
  /\ LET e == Tr[l]  s == gst[e.sid]
         exp == GcmTag(s.key, s.iv, s.aad, s.ct, e.tlen)
         info == << s.fam, s.bits, e.dir, s.pos, Len(s.aad), e.tlen >>
     IN Step(IF ~s.ok \/ e.obs.fault # 0 THEN MachineChecks(e, s.fam)
             ELSE    Chk(e.tag = ToHex(exp), "C07", "gcm-final-tag", l, info \o << e.tag, ToHex(exp) >>)
                  \o Chk(e.rc = 0, "C16", "gcm-final-rc", l, info \o << e.rc >>)
                  \o LeakChecks(e, s.fam, KeySecrets(s.key) \cup {<< "hash-key", HashKey(s.key) >>} \cup s.kd, "gcm-key-material-left")
                  \o MachineChecks(e, s.fam))

\* ---- key expansion (C04)
TKeyExp ==
  /\ IsEv("KeyExp") /\ UNCHANGED gst
  /\ LET e == Tr[l]  key == Key(e)  info == << e.fam, e.bits >> IN
     Step(IF e.obs.fault # 0 THEN MachineChecks(e, e.fam)
          ELSE    Chk(e.enc = ToHex(EncSchedule(key)), "C04", "keyexp-enc-schedule", l, info)
               \o Chk(e.dec = ToHex(DecSchedule(key)), "C04", "keyexp-dec-schedule", l, info)
               \o Chk(e.rc = 0, "C16", "keyexp-rc", l, info \o << e.rc >>)
               \o LeakChecks(e, e.fam, KeySecrets(key), "keyexp-key-material-left")
               \o MachineChecks(e, e.fam))

\* ---- CBC (C04)
TCbc ==
  /\ IsEv("Cbc") /\ UNCHANGED gst
  /\ LET e == Tr[l]  key == Key(e)  iv == PatBytes(e.iv[1], e.iv[2], 16)
         exp == IF e.dir = "enc" THEN CbcEnc(key, iv, Data(e)) ELSE CbcDec(key, iv, Data(e))
         info == << e.fam, e.bits, e.dir, e.data[3], e.inpl >>
     IN Step(IF e.obs.fault # 0 THEN MachineChecks(e, e.fam)
             ELSE    Chk(e.out = ToHex(exp), "C04", "cbc-output", l, info)
                  \o Chk(e.rc = 0, "C16", "cbc-rc", l, info \o << e.rc >>)
                  \o LeakChecks(e, e.fam, KeySecrets(key), "cbc-key-material-left")
                  \o MachineChecks(e, e.fam))

\* ---- XTS (C03); below 16 bytes neither buffer may be touched
TXts ==
  /\ IsEv("Xts") /\ UNCHANGED gst
  /\ LET e == Tr[l]
         k1 == PatBytes(e.k1[1], e.k1[2], e.bits \div 8)
         k2 == PatBytes(e.k2[1], e.k2[2], e.bits \div 8)
         tw == PatBytes(e.tw[1], e.tw[2], 16)
         info == << e.fam, e.bits, e.dir, e.exp, e.data[3], e.inpl >>
     IN Step(IF e.obs.fault # 0 THEN MachineChecks(e, e.fam)
             ELSE IF e.data[3] < 16
             THEN    Chk(e.untouched = 1, "C03", "xts-short-length-touched-buffers", l, info)
                  \o MachineChecks(e, e.fam)
             ELSE IF "big" \in DOMAIN e
             THEN \* data units up to the legal maximum: the first three blocks (they depend on nothing behind them), the return
                  \* code, and that the end of the output was written
                  LET d48 == PatBytes(e.data[1], e.data[2], 48)
                      exp == IF e.dir = "enc" THEN XtsEnc(k1, k2, tw, d48) ELSE XtsDec(k1, k2, tw, d48)
                  IN    Chk(e.out = ToHex(exp), "C03", "xts-output", l, info)
                     \o Chk(e.untouched = 0 /\ (e.tailwritten = 1 \/ e.inpl = 1), "C03", "xts-long-unit-not-processed", l, info \o << e.untouched, e.tailwritten >>)
                     \o Chk(e.rc = 0, "C16", "xts-rc", l, info \o << e.rc >>)
                     \o MachineChecks(e, e.fam)
             ELSE LET exp == IF e.dir = "enc" THEN XtsEnc(k1, k2, tw, Data(e)) ELSE XtsDec(k1, k2, tw, Data(e))
                  IN    Chk(e.out = ToHex(exp), "C03", "xts-output", l, info)
                     \o Chk(e.rc = 0, "C16", "xts-rc", l, info \o << e.rc >>)
                     \o LeakChecks(e, e.fam, KeySecrets(k1) \cup KeySecrets(k2) \cup {<< "encrypted-tweak", AesEncBlock(k2, tw) >>}
                                               \* the per-block tweaks E(K2, i) * alpha^j (E is one division away), look-ahead included
                                               \cup (IF "zmm" \in DOMAIN e
                                                     THEN LET ts == Tweaks(k2, tw, (e.data[3] \div 16) + 17)
                                                          IN {<< "block-tweak", ts[j] >> : j \in 2..Len(ts)} ELSE {}),
                                "xts-key-material-left")
                     \o MachineChecks(e, e.fam))

TSkip == l <= NEv /\ Tr[l].e = "Mark" /\ UNCHANGED gst /\ Step(<< >>)

TNext == TGcmPre \/ TGcm \/ TGcmInit \/ TGcmUpdate \/ TGcmFinal \/ TKeyExp \/ TCbc \/ TXts \/ TSkip
TSpec == TInit /\ [][TNext]_tvars
TraceAccepted == WriteResult /\ TLCGet(2) = NEv + 1
=============================================================================
