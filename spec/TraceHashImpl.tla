---------------------------- MODULE TraceHashImpl ----------------------------
(***************************************************************************)
(* Lane-level conformance of the hash managers: the same traces that       *)
(* TraceHash validates against the verdict spec are replayed against the   *)
(* implementation-shaped model HashImpl with the real block size, length   *)
(* field and lane count of the family.  The model predicts exactly WHICH   *)
(* context each submit / flush hands back (free-lane stack order, run      *)
(* min(lens), retire the lowest finished lane) and every context's status  *)
(* word.  A mismatch is MODEL-DRIFT, never a violation: a property-        *)
(* preserving change of the scheduling policy must not raise an alarm, but *)
(* it means the exhaustive HashImpl results no longer describe the code.   *)
(* Also the spec -> code direction: behaviours drawn by TLC's simulator    *)
(* from HashImplSim are executed by the driver and must be reproduced      *)
(* event by event.                                                         *)
(***************************************************************************)
EXTENDS HashImpl, TraceLib

VARIABLES l, lostp, viol
tvars == << ivars, l, lostp, viol >>

TraceCtx == 0..(atoi(IOEnv.MAXN) - 1)
TraceNone == -1
TraceNoSym == {}      \* TLC evaluates constant definitions eagerly: Permutations(Ctx) is factorial in the number of contexts
TraceLanes == atoi(IOEnv.NLANES)
TraceSb == atoi(IOEnv.SBTHR)
TraceB == atoi(IOEnv.BLOCK)
TraceP == atoi(IOEnv.LENF)
IsEv(name) == l <= NEv /\ Tr[l].e = name
Adv(v) == /\ l' = l + 1 /\ viol' = Cap(viol \o v) /\ PubResult(viol', l')

StatusWord(c) == (IF "P" \in S.ctx[c].status THEN 1 ELSE 0) + (IF "L" \in S.ctx[c].status THEN 2 ELSE 0)
                 + (IF "C" \in S.ctx[c].status THEN 4 ELSE 0)

TInit == IInit /\ l = 1 /\ lostp = TRUE /\ viol = << >> /\ PubResult(<< >>, 1)

TReset == /\ IsEv("HReset")
          /\ S' = [ctx |-> [c \in Ctx |-> InitCtx], owner |-> [x \in Lanes |-> NONE], lens |-> [x \in Lanes |-> 0],
                   cur |-> [x \in Lanes |-> 0], unused |-> [i \in 1..NLanes |-> i - 1]]
          /\ lastRet' = NONE /\ lastAct' = << "init" >>
          /\ lostp' = FALSE /\ Adv(<< >>)

Compare(e, what) ==
  LET n == Len(e.sts)
      ok == lastRet' = e.ret /\ \A c \in 0..(n - 1) : StatusWord(c)' = e.sts[c + 1]
  IN /\ lostp' = ~ok
     /\ Adv(Chk(ok, "DRIFT", what, l, << e.ret, lastRet', e.sts, [c \in 0..(n - 1) |-> StatusWord(c)'] >>))

TSubmit == /\ IsEv("HSubmit") /\ ~lostp /\ Tr[l].obs.fault = 0 /\ Tr[l].seg[3] = 0
           /\ SubmitAct(Tr[l].c, Tr[l].flags, Tr[l].seg[4])
           /\ Compare(Tr[l], "submit-hands-back-a-different-context-than-the-lane-model")
TFlush == /\ IsEv("HFlush") /\ ~lostp /\ Tr[l].obs.fault = 0
          /\ FlushAct
          /\ Compare(Tr[l], "flush-hands-back-a-different-context-than-the-lane-model")
TSkipMark == /\ l <= NEv /\ Tr[l].e = "Mark" /\ UNCHANGED << ivars, lostp >> /\ Adv(<< >>)
TSkip == /\ l <= NEv
         /\ Tr[l].e \in {"HSubmit", "HFlush"}
         /\ (lostp \/ Tr[l].obs.fault # 0 \/ (Tr[l].e = "HSubmit" /\ Tr[l].seg[3] # 0))
         /\ UNCHANGED ivars /\ lostp' = TRUE
         /\ Adv(<< >>)
TNext == TReset \/ TSubmit \/ TFlush \/ TSkip \/ TSkipMark
TSpec == TInit /\ [][TNext]_tvars
TraceAccepted == WriteResult /\ TLCGet(2) = NEv + 1
=============================================================================
