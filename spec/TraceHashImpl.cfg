SPECIFICATION TSpec
CONSTANTS
  Ctx <- TraceCtx
  NLanes <- TraceLanes
  B <- TraceB
  P <- TraceP
  SegLens = {}
  MaxTotal = 0
  NoCtx <- TraceNone
  SbThreshold <- TraceSb
  TrackStream = FALSE
  CtxSym <- TraceNoSym
POSTCONDITION TraceAccepted
CHECK_DEADLOCK FALSE
