SPECIFICATION Spec
CONSTANTS
  W = 2
  Alphabet = {0, 1, 2}
  StreamLen = 4
  Masks = {1, 3}
  Variant = "short-exit-keeps-old-hash"
INVARIANTS ImplEqualsDefinition HashIsFunctionOfWindow WindowIsLastBytes
CHECK_DEADLOCK FALSE
