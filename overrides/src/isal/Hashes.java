package isal;

/** Compression functions of SHA-1, SHA-256, SHA-512, MD5 and SM3 on serialised chaining values. */
final class Hashes {
    private Hashes() {
    }

    static int rol(int x, int n) {
        return (x << n) | (x >>> (32 - n));
    }

    static int ror(int x, int n) {
        return (x >>> n) | (x << (32 - n));
    }

    static long ror64(long x, int n) {
        return (x >>> n) | (x << (64 - n));
    }

    // ------------------------------------------------------------ SHA-1 (FIPS 180-4 6.1)
    static byte[] sha1(byte[] st, byte[] b, int off) {
        int[] w = new int[80];
        for (int t = 0; t < 16; t++)
            w[t] = Prim.be32(b, off + 4 * t);
        for (int t = 16; t < 80; t++)
            w[t] = rol(w[t - 3] ^ w[t - 8] ^ w[t - 14] ^ w[t - 16], 1);
        int h0 = Prim.be32(st, 0), h1 = Prim.be32(st, 4), h2 = Prim.be32(st, 8), h3 = Prim.be32(st, 12), h4 = Prim.be32(st, 16);
        int a = h0, bb = h1, c = h2, d = h3, e = h4;
        for (int t = 0; t < 80; t++) {
            int f, k;
            if (t < 20) {
                f = (bb & c) | (~bb & d);
                k = 0x5A827999;
            } else if (t < 40) {
                f = bb ^ c ^ d;
                k = 0x6ED9EBA1;
            } else if (t < 60) {
                f = (bb & c) | (bb & d) | (c & d);
                k = 0x8F1BBCDC;
            } else {
                f = bb ^ c ^ d;
                k = 0xCA62C1D6;
            }
            int tmp = rol(a, 5) + f + e + k + w[t];
            e = d;
            d = c;
            c = rol(bb, 30);
            bb = a;
            a = tmp;
        }
        byte[] r = new byte[20];
        Prim.putBe32(r, 0, h0 + a);
        Prim.putBe32(r, 4, h1 + bb);
        Prim.putBe32(r, 8, h2 + c);
        Prim.putBe32(r, 12, h3 + d);
        Prim.putBe32(r, 16, h4 + e);
        return r;
    }

    // ------------------------------------------------------------ SHA-256 (FIPS 180-4 6.2)
    static final int[] K256 = { 0x428a2f98, 0x71374491, 0xb5c0fbcf, 0xe9b5dba5, 0x3956c25b, 0x59f111f1, 0x923f82a4, 0xab1c5ed5, 0xd807aa98, 0x12835b01,
            0x243185be, 0x550c7dc3, 0x72be5d74, 0x80deb1fe, 0x9bdc06a7, 0xc19bf174, 0xe49b69c1, 0xefbe4786, 0x0fc19dc6, 0x240ca1cc, 0x2de92c6f, 0x4a7484aa,
            0x5cb0a9dc, 0x76f988da, 0x983e5152, 0xa831c66d, 0xb00327c8, 0xbf597fc7, 0xc6e00bf3, 0xd5a79147, 0x06ca6351, 0x14292967, 0x27b70a85, 0x2e1b2138,
            0x4d2c6dfc, 0x53380d13, 0x650a7354, 0x766a0abb, 0x81c2c92e, 0x92722c85, 0xa2bfe8a1, 0xa81a664b, 0xc24b8b70, 0xc76c51a3, 0xd192e819, 0xd6990624,
            0xf40e3585, 0x106aa070, 0x19a4c116, 0x1e376c08, 0x2748774c, 0x34b0bcb5, 0x391c0cb3, 0x4ed8aa4a, 0x5b9cca4f, 0x682e6ff3, 0x748f82ee, 0x78a5636f,
            0x84c87814, 0x8cc70208, 0x90befffa, 0xa4506ceb, 0xbef9a3f7, 0xc67178f2 };

    static byte[] sha256(byte[] st, byte[] b, int off) {
        int[] w = new int[64];
        for (int t = 0; t < 16; t++)
            w[t] = Prim.be32(b, off + 4 * t);
        for (int t = 16; t < 64; t++) {
            int s0 = ror(w[t - 15], 7) ^ ror(w[t - 15], 18) ^ (w[t - 15] >>> 3);
            int s1 = ror(w[t - 2], 17) ^ ror(w[t - 2], 19) ^ (w[t - 2] >>> 10);
            w[t] = w[t - 16] + s0 + w[t - 7] + s1;
        }
        int[] h = new int[8];
        for (int k = 0; k < 8; k++)
            h[k] = Prim.be32(st, 4 * k);
        int a = h[0], bb = h[1], c = h[2], d = h[3], e = h[4], f = h[5], g = h[6], hh = h[7];
        for (int t = 0; t < 64; t++) {
            int S1 = ror(e, 6) ^ ror(e, 11) ^ ror(e, 25);
            int ch = (e & f) ^ (~e & g);
            int t1 = hh + S1 + ch + K256[t] + w[t];
            int S0 = ror(a, 2) ^ ror(a, 13) ^ ror(a, 22);
            int maj = (a & bb) ^ (a & c) ^ (bb & c);
            int t2 = S0 + maj;
            hh = g;
            g = f;
            f = e;
            e = d + t1;
            d = c;
            c = bb;
            bb = a;
            a = t1 + t2;
        }
        byte[] r = new byte[32];
        int[] o = { a, bb, c, d, e, f, g, hh };
        for (int k = 0; k < 8; k++)
            Prim.putBe32(r, 4 * k, h[k] + o[k]);
        return r;
    }

    // ------------------------------------------------------------ SHA-512 (FIPS 180-4 6.4)
    static final long[] K512 = { 0x428a2f98d728ae22L, 0x7137449123ef65cdL, 0xb5c0fbcfec4d3b2fL, 0xe9b5dba58189dbbcL, 0x3956c25bf348b538L, 0x59f111f1b605d019L,
            0x923f82a4af194f9bL, 0xab1c5ed5da6d8118L, 0xd807aa98a3030242L, 0x12835b0145706fbeL, 0x243185be4ee4b28cL, 0x550c7dc3d5ffb4e2L, 0x72be5d74f27b896fL,
            0x80deb1fe3b1696b1L, 0x9bdc06a725c71235L, 0xc19bf174cf692694L, 0xe49b69c19ef14ad2L, 0xefbe4786384f25e3L, 0x0fc19dc68b8cd5b5L, 0x240ca1cc77ac9c65L,
            0x2de92c6f592b0275L, 0x4a7484aa6ea6e483L, 0x5cb0a9dcbd41fbd4L, 0x76f988da831153b5L, 0x983e5152ee66dfabL, 0xa831c66d2db43210L, 0xb00327c898fb213fL,
            0xbf597fc7beef0ee4L, 0xc6e00bf33da88fc2L, 0xd5a79147930aa725L, 0x06ca6351e003826fL, 0x142929670a0e6e70L, 0x27b70a8546d22ffcL, 0x2e1b21385c26c926L,
            0x4d2c6dfc5ac42aedL, 0x53380d139d95b3dfL, 0x650a73548baf63deL, 0x766a0abb3c77b2a8L, 0x81c2c92e47edaee6L, 0x92722c851482353bL, 0xa2bfe8a14cf10364L,
            0xa81a664bbc423001L, 0xc24b8b70d0f89791L, 0xc76c51a30654be30L, 0xd192e819d6ef5218L, 0xd69906245565a910L, 0xf40e35855771202aL, 0x106aa07032bbd1b8L,
            0x19a4c116b8d2d0c8L, 0x1e376c085141ab53L, 0x2748774cdf8eeb99L, 0x34b0bcb5e19b48a8L, 0x391c0cb3c5c95a63L, 0x4ed8aa4ae3418acbL, 0x5b9cca4f7763e373L,
            0x682e6ff3d6b2b8a3L, 0x748f82ee5defb2fcL, 0x78a5636f43172f60L, 0x84c87814a1f0ab72L, 0x8cc702081a6439ecL, 0x90befffa23631e28L, 0xa4506cebde82bde9L,
            0xbef9a3f7b2c67915L, 0xc67178f2e372532bL, 0xca273eceea26619cL, 0xd186b8c721c0c207L, 0xeada7dd6cde0eb1eL, 0xf57d4f7fee6ed178L, 0x06f067aa72176fbaL,
            0x0a637dc5a2c898a6L, 0x113f9804bef90daeL, 0x1b710b35131c471bL, 0x28db77f523047d84L, 0x32caab7b40c72493L, 0x3c9ebe0a15c9bebcL, 0x431d67c49c100d4cL,
            0x4cc5d4becb3e42b6L, 0x597f299cfc657e2aL, 0x5fcb6fab3ad6faecL, 0x6c44198c4a475817L };

    static byte[] sha512(byte[] st, byte[] b, int off) {
        long[] w = new long[80];
        for (int t = 0; t < 16; t++)
            w[t] = Prim.be64(b, off + 8 * t);
        for (int t = 16; t < 80; t++) {
            long s0 = ror64(w[t - 15], 1) ^ ror64(w[t - 15], 8) ^ (w[t - 15] >>> 7);
            long s1 = ror64(w[t - 2], 19) ^ ror64(w[t - 2], 61) ^ (w[t - 2] >>> 6);
            w[t] = w[t - 16] + s0 + w[t - 7] + s1;
        }
        long[] h = new long[8];
        for (int k = 0; k < 8; k++)
            h[k] = Prim.be64(st, 8 * k);
        long a = h[0], bb = h[1], c = h[2], d = h[3], e = h[4], f = h[5], g = h[6], hh = h[7];
        for (int t = 0; t < 80; t++) {
            long S1 = ror64(e, 14) ^ ror64(e, 18) ^ ror64(e, 41);
            long ch = (e & f) ^ (~e & g);
            long t1 = hh + S1 + ch + K512[t] + w[t];
            long S0 = ror64(a, 28) ^ ror64(a, 34) ^ ror64(a, 39);
            long maj = (a & bb) ^ (a & c) ^ (bb & c);
            long t2 = S0 + maj;
            hh = g;
            g = f;
            f = e;
            e = d + t1;
            d = c;
            c = bb;
            bb = a;
            a = t1 + t2;
        }
        byte[] r = new byte[64];
        long[] o = { a, bb, c, d, e, f, g, hh };
        for (int k = 0; k < 8; k++)
            Prim.putBe64(r, 8 * k, h[k] + o[k]);
        return r;
    }

    // ------------------------------------------------------------ MD5 (RFC 1321)
    static final int[] S5 = { 7, 12, 17, 22, 7, 12, 17, 22, 7, 12, 17, 22, 7, 12, 17, 22, 5, 9, 14, 20, 5, 9, 14, 20, 5, 9, 14, 20, 5, 9, 14, 20, 4, 11, 16, 23,
            4, 11, 16, 23, 4, 11, 16, 23, 4, 11, 16, 23, 6, 10, 15, 21, 6, 10, 15, 21, 6, 10, 15, 21, 6, 10, 15, 21 };
    static final int[] K5 = new int[64];
    static {
        for (int k = 0; k < 64; k++)
            K5[k] = (int) (long) Math.floor(Math.abs(Math.sin(k + 1)) * 4294967296.0);
    }

    static byte[] md5(byte[] st, byte[] b, int off) {
        int[] m = new int[16];
        for (int t = 0; t < 16; t++)
            m[t] = Prim.le32(b, off + 4 * t);
        int a0 = Prim.le32(st, 0), b0 = Prim.le32(st, 4), c0 = Prim.le32(st, 8), d0 = Prim.le32(st, 12);
        int a = a0, bb = b0, c = c0, d = d0;
        for (int t = 0; t < 64; t++) {
            int f, g;
            if (t < 16) {
                f = (bb & c) | (~bb & d);
                g = t;
            } else if (t < 32) {
                f = (d & bb) | (~d & c);
                g = (5 * t + 1) & 15;
            } else if (t < 48) {
                f = bb ^ c ^ d;
                g = (3 * t + 5) & 15;
            } else {
                f = c ^ (bb | ~d);
                g = (7 * t) & 15;
            }
            f = f + a + K5[t] + m[g];
            a = d;
            d = c;
            c = bb;
            bb = bb + rol(f, S5[t]);
        }
        byte[] r = new byte[16];
        Prim.putLe32(r, 0, a0 + a);
        Prim.putLe32(r, 4, b0 + bb);
        Prim.putLe32(r, 8, c0 + c);
        Prim.putLe32(r, 12, d0 + d);
        return r;
    }

    // ------------------------------------------------------------ SM3 (GB/T 32905-2016)
    static int p0(int x) {
        return x ^ rol(x, 9) ^ rol(x, 17);
    }

    static int p1(int x) {
        return x ^ rol(x, 15) ^ rol(x, 23);
    }

    static byte[] sm3(byte[] st, byte[] b, int off) {
        int[] w = new int[68], w1 = new int[64];
        for (int t = 0; t < 16; t++)
            w[t] = Prim.be32(b, off + 4 * t);
        for (int t = 16; t < 68; t++)
            w[t] = p1(w[t - 16] ^ w[t - 9] ^ rol(w[t - 3], 15)) ^ rol(w[t - 13], 7) ^ w[t - 6];
        for (int t = 0; t < 64; t++)
            w1[t] = w[t] ^ w[t + 4];
        int[] v = new int[8];
        for (int k = 0; k < 8; k++)
            v[k] = Prim.be32(st, 4 * k);
        int a = v[0], bb = v[1], c = v[2], d = v[3], e = v[4], f = v[5], g = v[6], h = v[7];
        for (int t = 0; t < 64; t++) {
            int tj = t < 16 ? 0x79cc4519 : 0x7a879d8a;
            int ss1 = rol(rol(a, 12) + e + rol(tj, t % 32), 7);
            int ss2 = ss1 ^ rol(a, 12);
            int ff = t < 16 ? (a ^ bb ^ c) : ((a & bb) | (a & c) | (bb & c));
            int gg = t < 16 ? (e ^ f ^ g) : ((e & f) | (~e & g));
            int tt1 = ff + d + ss2 + w1[t];
            int tt2 = gg + h + ss1 + w[t];
            d = c;
            c = rol(bb, 9);
            bb = a;
            a = tt1;
            h = g;
            g = rol(f, 19);
            f = e;
            e = p0(tt2);
        }
        int[] o = { a, bb, c, d, e, f, g, h };
        byte[] r = new byte[32];
        for (int k = 0; k < 8; k++)
            Prim.putBe32(r, 4 * k, v[k] ^ o[k]);
        return r;
    }

    static final byte[] SM3_IV = Prim.unhex("7380166f4914b2b9172442d7da8a0600a96f30bc163138aae38dee4db0fb0e4e");

    /** Streaming Merkle-Damgard wrapper (only used for SM3; the JDK provides the others). */
    static final class Stream {
        final String alg;
        byte[] st;
        final byte[] buf = new byte[64];
        int fill = 0;
        long total = 0;

        Stream(String alg) {
            this.alg = alg;
            st = SM3_IV.clone();
        }

        void update(byte[] d, int off, int len) {
            total += len;
            while (len > 0) {
                if (fill == 0 && len >= 64) {
                    st = sm3(st, d, off);
                    off += 64;
                    len -= 64;
                    continue;
                }
                int n = Math.min(len, 64 - fill);
                System.arraycopy(d, off, buf, fill, n);
                fill += n;
                off += n;
                len -= n;
                if (fill == 64) {
                    st = sm3(st, buf, 0);
                    fill = 0;
                }
            }
        }

        byte[] digest() {
            long bits = total * 8;
            byte[] pad = new byte[(fill < 56 ? 56 : 120) - fill + 8];
            pad[0] = (byte) 0x80;
            Prim.putBe64(pad, pad.length - 8, bits);
            long t = total;
            update(pad, 0, pad.length);
            total = t;
            return st;
        }
    }
}
