/* drv_self.c - schedule-controlled execution of the FIPS self-test protocol (C17), no source hooks:
 * the status function (asm_check_self_tests_status) and the setter run under the x86 trap flag, so
 * the driver regains control after every instruction and lets exactly one thread at a time perform
 * its next access to the shared status word, in the order a schedule prescribes.
 *
 *   selfmap <chk offsets "off:class,..."> <set offsets>   classes: L load, X cmpxchg, C compare, S store
 *   selfrun <nthreads> <ncalls> <aes result> <sha result> <entry: t|k> <schedule digits...>
 *
 *   selfstall <nthreads> <stall ms> <aes result> <sha result> <entry: t|k|a|b|c|g|m> [<aes result of re-runs> <sha result of re-runs>]
 *       free-running variant (no single-stepping): thread 0 makes the first call and is held inside the AES stage for
 *       <stall ms>; the other threads make their first call meanwhile (they really spin), one more call follows the end.
 *       Covers schedules in which a waiter polls millions of times, which the stepped scheduler cannot reach.
 *
 * Events: SReset, Call{t}, Acc{t,k,eax,zf,st}, RunAes{t}, RunSha{t}, TestsDone{t,res}, Ret{t,rv}, Stuck, SEnd */
#define _GNU_SOURCE
#include "core.h"
#include <string.h>
#include <stdlib.h>
#include <pthread.h>
#include <semaphore.h>
#include <signal.h>
#include <ucontext.h>
#include <unistd.h>
#include <time.h>
#include <aes_keyexp.h>
#include <aes_gcm.h>
#include <sha1_mb.h>
#include <sha256_mb.h>
#include <sha512_mb.h>
#include <isal_crypto_api.h>

extern int __real_asm_check_self_tests_status(void);
extern void __real_asm_set_self_tests_status(int);
extern int __real__aes_self_tests(void);
extern int __real__sha_self_tests(void);
extern uint8_t __start_isal_data[], __stop_isal_data[];
extern int isal_self_tests(void);

#define MAXT 8
static volatile int *st_word;
static int nthr, ncalls, res_aes, res_sha, entry_kind;
static sem_t go[MAXT], arrived;
static volatile int done[MAXT];
static __thread int me = -1;
static __thread int stepping; /* inside a single-stepped function */
static __thread int pending;  /* class of the shared access that has just executed */
static uintptr_t chk_lo, chk_hi, set_lo, set_hi;
static char chk_map[256], set_map[64];
static volatile int controlled; /* a selfrun is in progress */
static volatile int free_mode;  /* selfstall: threads run freely, events are ordered by ev_mx */
static pthread_mutex_t ev_mx = PTHREAD_MUTEX_INITIALIZER;
static sem_t inside;
static volatile int aes_entries;
static int stall_ms;
static int res_aes2, res_sha2;    /* results of runs after the first (a transient fault: first run fails, a re-run would pass) */
static __thread int my_run;

static void
stop_point(void)
{
        sem_post(&arrived);
        sem_wait(&go[me]);
}

static void
log_ev(const char *name, int t, const char *extra)
{
        if (free_mode)
                pthread_mutex_lock(&ev_mx);
        ev_begin(name);
        ev_int("t", t);
        if (extra)
                ev_raw("x", extra);
        ev_end();
        if (free_mode)
                pthread_mutex_unlock(&ev_mx);
}

static char
class_at(uintptr_t rip)
{
        if (rip >= chk_lo && rip < chk_hi && rip - chk_lo < sizeof chk_map)
                return chk_map[rip - chk_lo];
        if (rip >= set_lo && rip < set_hi && rip - set_lo < sizeof set_map)
                return set_map[rip - set_lo];
        return 0;
}

static void
on_trap(int sig, siginfo_t *si, void *ucv)
{
        (void) sig;
        (void) si;
        ucontext_t *uc = ucv;
        uintptr_t rip = (uintptr_t) uc->uc_mcontext.gregs[REG_RIP];
        int inside = (rip >= chk_lo && rip < chk_hi) || (rip >= set_lo && rip < set_hi);
        if (pending) {
                ev_begin("Acc");
                ev_int("t", me);
                char k[2] = { (char) pending, 0 };
                ev_str("k", k);
                ev_int("eax", (long long) (int) (uint32_t) uc->uc_mcontext.gregs[REG_RAX]);
                ev_int("zf", (uc->uc_mcontext.gregs[REG_EFL] >> 6) & 1);
                ev_int("st", *st_word);
                ev_end();
                pending = 0;
        }
        if (!inside) {
                if (!stepping) /* left the function: stop single-stepping */
                        uc->uc_mcontext.gregs[REG_EFL] &= ~0x100ll;
                return;
        }
        char c = class_at(rip);
        if (c && c != '-') {
                stop_point(); /* wait for the scheduler before touching the shared word */
                pending = c;
        }
}

static inline void
tf_on(void)
{
        __asm__ volatile("pushfq\n\torq $0x100,(%%rsp)\n\tpopfq" ::: "memory", "cc");
}
static inline void
tf_off(void)
{
        __asm__ volatile("pushfq\n\tandq $~0x100,(%%rsp)\n\tpopfq" ::: "memory", "cc");
}

int
__wrap_asm_check_self_tests_status(void)
{
        if (!controlled || me < 0 || free_mode)
                return __real_asm_check_self_tests_status();
        stepping = 1;
        tf_on();
        int r = __real_asm_check_self_tests_status();
        stepping = 0;
        tf_off();
        return r;
}
void
__wrap_asm_set_self_tests_status(int v)
{
        if (!controlled || me < 0 || free_mode) {
                __real_asm_set_self_tests_status(v);
                return;
        }
        stepping = 1;
        tf_on();
        __real_asm_set_self_tests_status(v);
        stepping = 0;
        tf_off();
}
int
__wrap__aes_self_tests(void)
{
        if (!controlled || me < 0)
                return __real__aes_self_tests();
        if (free_mode) {
                log_ev("RunAes", me, NULL);
                my_run = __sync_fetch_and_add(&aes_entries, 1);
                if (my_run == 0) {
                        sem_post(&inside);
                        usleep((useconds_t) stall_ms * 1000);
                }
                int ra = my_run == 0 ? res_aes : res_aes2;
                return ra == -9 ? __real__aes_self_tests() : ra;
        }
        stop_point();
        log_ev("RunAes", me, NULL);
        return res_aes == -9 ? __real__aes_self_tests() : res_aes;
}
int
__wrap__sha_self_tests(void)
{
        if (!controlled || me < 0)
                return __real__sha_self_tests();
        if (!free_mode)
                stop_point();
        log_ev("RunSha", me, NULL);
        int rs = (free_mode && my_run > 0) ? res_sha2 : res_sha;
        int r = rs == -9 ? __real__sha_self_tests() : rs;
        if (free_mode)
                pthread_mutex_lock(&ev_mx);
        ev_begin("TestsDone");  /* logged before the verdict is published */
        ev_int("t", me);
        ev_int("sha", r);
        ev_end();
        if (free_mode)
                pthread_mutex_unlock(&ev_mx);
        return r;
}

/* The portable implementation of the protocol (fips/self_tests_generic.c, C11 atomics; used on non-x86 builds) is compiled on
 * its own with isal_self_tests -> isal_self_tests_generic and the two stage functions -> gen_*_self_tests below.  Its status
 * word is a function-local static: every generic behaviour runs in a process of its own. */
extern int isal_self_tests_generic(void) __attribute__((weak));
int
gen_aes_self_tests(void)
{
        log_ev("RunAes", me, NULL);
        my_run = __sync_fetch_and_add(&aes_entries, 1);
        if (my_run == 0) {
                sem_post(&inside);
                usleep((useconds_t) stall_ms * 1000);
        }
        return my_run == 0 ? res_aes : res_aes2;
}
int
gen_sha_self_tests(void)
{
        log_ev("RunSha", me, NULL);
        int r = my_run > 0 ? res_sha2 : res_sha;
        pthread_mutex_lock(&ev_mx);
        ev_begin("TestsDone");
        ev_int("t", me);
        ev_int("sha", r);
        ev_end();
        pthread_mutex_unlock(&ev_mx);
        return r;
}

static int
one_call(void)
{
        /* entry kinds: t isal_self_tests, k AES key expansion, a/b/c SHA-256/SHA-1/SHA-512 manager init, g GCM precompute,
         * m mixed (by thread index) - every approved entry point must obey the same gate */
        int kind = entry_kind;
        if (kind == 'm')
                kind = "kabcgt"[(me < 0 ? 0 : me) % 6];
        switch (kind) {
        case 'G':
                if (!isal_self_tests_generic)
                        die("generic self-test object not linked");
                return isal_self_tests_generic();
        case 'k': {
                uint8_t key[16] = { 1, 2, 3 }, enc[16 * 11], dec[16 * 11];
                return isal_aes_keyexp_128(key, enc, dec);
        }
        case 'a': {
                static __thread ISAL_SHA256_HASH_CTX_MGR *m;
                if (!m && posix_memalign((void **) &m, 64, sizeof *m))
                        die("oom");
                return isal_sha256_ctx_mgr_init(m);
        }
        case 'b': {
                static __thread ISAL_SHA1_HASH_CTX_MGR *m;
                if (!m && posix_memalign((void **) &m, 64, sizeof *m))
                        die("oom");
                return isal_sha1_ctx_mgr_init(m);
        }
        case 'c': {
                static __thread ISAL_SHA512_HASH_CTX_MGR *m;
                if (!m && posix_memalign((void **) &m, 64, sizeof *m))
                        die("oom");
                return isal_sha512_ctx_mgr_init(m);
        }
        case 'g': {
                static __thread struct isal_gcm_key_data *kd;
                uint8_t key[16] = { 9, 8, 7 };
                if (!kd && posix_memalign((void **) &kd, 64, sizeof *kd))
                        die("oom");
                return isal_aes_gcm_pre_128(key, kd);
        }
        default: return isal_self_tests();
        }
}

static void *
worker(void *arg)
{
        me = (int) (intptr_t) arg;
        stack_t ss = { .ss_sp = malloc(65536), .ss_size = 65536, .ss_flags = 0 };
        sigaltstack(&ss, NULL);
        sem_wait(&go[me]); /* released once for start-up; first stop is the first Call */
        for (int c = 0; c < ncalls; c++) {
                stop_point();
                log_ev("Call", me, NULL);
                int rv = one_call();
                stop_point();
                ev_begin("Ret");
                ev_int("t", me);
                ev_int("rv", rv);
                ev_end();
        }
        done[me] = 1;
        sem_post(&arrived);
        return NULL;
}

static void *
free_worker(void *arg)
{
        me = (int) (intptr_t) arg;
        for (int c = 0; c < ncalls; c++) {
                log_ev("Call", me, NULL);
                int rv = one_call();
                pthread_mutex_lock(&ev_mx);
                ev_begin("Ret");
                ev_int("t", me);
                ev_int("rv", rv);
                ev_end();
                pthread_mutex_unlock(&ev_mx);
        }
        done[me] = 1;
        return NULL;
}

static void
find_status_word(void)
{
        if (st_word)
                return;
        st_word = find_self_test_word(__real_asm_set_self_tests_status);
        if (!st_word)
                die("self_test_status not found");
}

static void
parse_map(const char *s, char *map, size_t cap)
{
        memset(map, 0, cap);
        while (*s) {
                char *end;
                long off = strtol(s, &end, 10);
                if (*end != ':')
                        break;
                if (off >= 0 && (size_t) off < cap)
                        map[off] = end[1];
                s = end + 2;
                if (*s == ',')
                        s++;
        }
}

static void
do_selfrun(const cmd *c)
{
        nthr = (int) cmd_i(c, 1);
        ncalls = (int) cmd_i(c, 2);
        res_aes = (int) cmd_i(c, 3);
        res_sha = (int) cmd_i(c, 4);
        entry_kind = c->t[5][0];
        find_status_word();
        *st_word = 2; /* SELF_TEST_NOT_DONE */
        struct sigaction sa;
        memset(&sa, 0, sizeof sa);
        sa.sa_sigaction = on_trap;
        sa.sa_flags = SA_SIGINFO | SA_ONSTACK;
        sigaction(SIGTRAP, &sa, NULL);
        sem_init(&arrived, 0, 0);
        pthread_t th[MAXT];
        ev_begin("SReset");
        ev_int("n", nthr);
        ev_int("calls", ncalls);
        ev_int("aes", res_aes);
        ev_int("sha", res_sha);
        { char ek[2] = { (char) entry_kind, 0 }; ev_str("entry", entry_kind == 'k' ? "keyexp" : entry_kind == 't' ? "selftests" : ek); }
        ev_end();
        controlled = 1;
        for (int i = 0; i < nthr; i++) {
                done[i] = 0;
                sem_init(&go[i], 0, 0);
                pthread_create(&th[i], NULL, worker, (void *) (intptr_t) i);
        }
        /* start-up: let every thread run to its first stop */
        for (int i = 0; i < nthr; i++) {
                sem_post(&go[i]);
                sem_wait(&arrived);
        }
        long steps = 0;
        for (int k = 6; k < c->n; k++)
                for (const char *p = c->t[k]; *p; p++) {
                        int t = *p - '0';
                        if (t < 0 || t >= nthr || done[t])
                                continue;
                        sem_post(&go[t]);
                        sem_wait(&arrived);
                        steps++;
                }
        /* drain: round robin until everybody has returned; a step budget bounds a thread that waits forever */
        long budget = 200000;
        int alive = 1;
        while (alive && budget > 0) {
                alive = 0;
                for (int t = 0; t < nthr; t++)
                        if (!done[t]) {
                                alive = 1;
                                sem_post(&go[t]);
                                sem_wait(&arrived);
                                budget--;
                        }
        }
        if (alive) {
                ev_begin("Stuck");
                ev_int("st", *st_word);
                ev_end();
                ev_begin("SEnd");
                ev_int("st", *st_word);
                ev_end();
                if (ev_fp)
                        fflush(ev_fp);
                _exit(0); /* threads are parked for ever: the trace ends here */
        }
        for (int i = 0; i < nthr; i++)
                pthread_join(th[i], NULL);
        controlled = 0;
        ev_begin("SEnd");
        ev_int("st", *st_word);
        ev_end();
}

static void
do_selfstall(const cmd *c)
{
        nthr = (int) cmd_i(c, 1);
        stall_ms = (int) cmd_i(c, 2);
        res_aes = (int) cmd_i(c, 3);
        res_sha = (int) cmd_i(c, 4);
        entry_kind = c->t[5][0];
        res_aes2 = c->n > 6 ? (int) cmd_i(c, 6) : res_aes;
        res_sha2 = c->n > 7 ? (int) cmd_i(c, 7) : res_sha;
        ncalls = 2; /* the second call of every thread comes after its first returned: "later calls return the verdict" */
        find_status_word();
        *st_word = 2; /* SELF_TEST_NOT_DONE */
        sem_init(&inside, 0, 0);
        aes_entries = 0;
        ev_begin("SReset");
        ev_int("n", nthr);
        ev_int("calls", ncalls);
        ev_int("aes", res_aes);
        ev_int("sha", res_sha);
        { char ek[2] = { (char) entry_kind, 0 }; ev_str("entry", entry_kind == 'k' ? "keyexp" : entry_kind == 't' ? "selftests" : ek); }
        ev_int("free", 1);
        ev_end();
        free_mode = 1;
        controlled = 1;
        pthread_t th[MAXT];
        for (int i = 0; i < nthr; i++)
                done[i] = 0;
        pthread_create(&th[0], NULL, free_worker, (void *) (intptr_t) 0);
        struct timespec ts;
        clock_gettime(CLOCK_REALTIME, &ts);
        ts.tv_sec += 5;
        sem_timedwait(&inside, &ts); /* thread 0 is inside the AES stage (or the tests never started: reported by the spec) */
        for (int i = 1; i < nthr; i++)
                pthread_create(&th[i], NULL, free_worker, (void *) (intptr_t) i);
        /* everybody must be back soon after the stall ends */
        int alive = 1;
        for (int w = 0; w < (stall_ms + 20000) / 10 && alive; w++) {
                alive = 0;
                for (int i = 0; i < nthr; i++)
                        alive |= !done[i];
                if (alive)
                        usleep(10000);
        }
        if (alive) {
                pthread_mutex_lock(&ev_mx);
                ev_begin("Stuck");
                ev_int("st", *st_word);
                ev_end();
                ev_begin("SEnd");
                ev_int("st", *st_word);
                ev_end();
                if (ev_fp)
                        fflush(ev_fp);
                _exit(0);
        }
        for (int i = 0; i < nthr; i++)
                pthread_join(th[i], NULL);
        controlled = 0;
        free_mode = 0;
        ev_begin("SEnd");
        ev_int("st", *st_word);
        ev_end();
}

int
self_cmd(const cmd *c)
{
        if (!strcmp(c->t[0], "selfstall")) {
                do_selfstall(c);
                return 1;
        }
        if (!strcmp(c->t[0], "selfmap")) {
                chk_lo = (uintptr_t) __real_asm_check_self_tests_status;
                set_lo = (uintptr_t) __real_asm_set_self_tests_status;
                chk_hi = chk_lo + (uintptr_t) cmd_i(c, 1);
                set_hi = set_lo + (uintptr_t) cmd_i(c, 3);
                parse_map(c->t[2], chk_map, sizeof chk_map);
                parse_map(c->t[4], set_map, sizeof set_map);
                return 1;
        }
        if (!strcmp(c->t[0], "selfrun")) {
                do_selfrun(c);
                return 1;
        }
        return 0;
}
