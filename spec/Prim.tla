------------------------------- MODULE Prim -------------------------------
(***************************************************************************)
(* Primitive operators of the isa-l_crypto specification.  Each has a     *)
(* TLA+ meaning given here (an executable definition where that is        *)
(* practical, a characterisation otherwise) and a fast Java body in       *)
(* overrides/src/isal/Prim.java that TLC uses instead.  PrimSelfTest      *)
(* checks the Java bodies against published vectors, against the TLA+     *)
(* definitions of module Aes, and against the JDK.                        *)
(* Bytes are naturals 0..255; byte strings are sequences of bytes.        *)
(***************************************************************************)
EXTENDS Naturals, Sequences, Bitwise, Aes

HexDigits == << "0","1","2","3","4","5","6","7","8","9","a","b","c","d","e","f" >>

\* Pattern data: byte i of pattern buffer b.  The harness fills caller buffers from the same
\* function (harness/core.h pat_byte); its only relevant property is being a fixed function.
PatBytes(b, off, len) == [i \in 1..len |-> IF b = 1 THEN 255 ELSE 0]     \* Java: splitmix64 stream

ToHex(bs) == bs          \* Java: lower-case hex string of a byte sequence
FromHex(h) == h          \* Java: inverse of ToHex
XorBytes(a, b) == [i \in 1..Len(a) |-> a[i] ^^ b[i]]
HexHas(hay, needle) == FALSE   \* Java: needle occurs in hay at an even (byte) offset

\* FIPS 197 block cipher: the definition is module Aes
AesEncBlock(key, blk) == Cipher(key, blk)
AesDecBlock(key, blk) == InvCipher(key, blk)

\* the key schedules of module Aes, with fast bodies (PrimSelfTest checks them against the TLA+ definitions)
FastRoundKeys(key) == RoundKeys(key)
FastDecRoundKeys(key) == DecRoundKeys(key)

\* SP 800-38D 6.3 multiplication in GF(2^128) (bit 0 = most significant bit of byte 1)
Bit(x, k) == (x[(k \div 8) + 1] \div (2 ^ (7 - (k % 8)))) % 2
ShiftRight1(v) == [i \in 1..16 |-> (v[i] \div 2) + (IF i > 1 THEN (v[i - 1] % 2) * 128 ELSE 0)]
RECURSIVE GfLoop(_, _, _, _)
GfLoop(x, z, v, k) ==
  IF k = 128 THEN z
  ELSE LET z2 == IF Bit(x, k) = 1 THEN XorBytes(z, v) ELSE z
           s  == ShiftRight1(v)
           v2 == IF v[16] % 2 = 1 THEN [s EXCEPT ![1] = s[1] ^^ 225] ELSE s
       IN GfLoop(x, z2, v2, k + 1)
GfMul128(x, y) == GfLoop(x, [i \in 1..16 |-> 0], y, 0)

\* Compression functions on serialised chaining values (FIPS 180-4, RFC 1321, GB/T 32905).
\* No TLA+ body: 32/64-bit modular arithmetic does not fit TLC's integers; the Java bodies are
\* validated by PrimSelfTest (vectors + agreement of HashStd!Digest with the JDK's digests).
Compress(alg, state, block) == state
DigestOfSegs(alg, segs) == ""      \* streaming digest of pattern segments <<b, off, lenHi, lenLo>>
JdkDigest(alg, msg) == msg         \* second implementation, used only by PrimSelfTest
Murmur3x64128(msg, seed8) == msg   \* MurmurHash3_x64_128, seed as 8 LE bytes, result 16 bytes as stored
MhDigestOfSegs(alg, segs) == << >>   \* streaming MultiHash!MhDigest over pattern segments (long streams)
Murmur3OfSegs(segs, seed8) == << >>   \* streaming MurmurHash3_x64_128 over pattern segments
Rol64(x8, n) == x8                 \* rotate a 64-bit value (8 LE bytes) left by n
=============================================================================
