#!/bin/sh
# usage: confirm_mutant.sh <worktree> <mutant dir> [FIPS]   - independent confirmation of a seeded change:
# clean: builds + demo passes; mutated: builds, existing tests pass, demo fails. Restores the worktree.
WT=$1; M=$2; FIPS=${3:-}
cd "$WT" || exit 9
git checkout -- . 2>/dev/null
make -f Makefile.unx clean >/dev/null 2>&1
EXTRA=""
[ -n "$FIPS" ] && EXTRA="FIPS_MODE=y"
make -f Makefile.unx -j8 lib $EXTRA >/dev/null 2>&1 || { echo "CLEAN BUILD FAILED"; exit 1; }
sh "$M/demo.sh" "$WT" >/tmp/cm.$$.clean 2>&1; c=$?
git apply "$M/patch.diff" || { echo "PATCH FAILED"; exit 1; }
make -f Makefile.unx clean >/dev/null 2>&1
make -f Makefile.unx -j8 lib >/dev/null 2>&1 || { echo "MUT BUILD FAILED"; git checkout -- .; exit 1; }
make -f Makefile.unx -j8 check >/tmp/cm.$$.check 2>&1; t=$?
grep -q "Finished running check" /tmp/cm.$$.check || t=99
grep -qi "fail" /tmp/cm.$$.check && grep -i "fail" /tmp/cm.$$.check | grep -vi "0 fail" | head -3
if [ -n "$FIPS" ]; then make -f Makefile.unx clean >/dev/null 2>&1; make -f Makefile.unx -j8 lib $EXTRA >/dev/null 2>&1; fi
sh "$M/demo.sh" "$WT" >/tmp/cm.$$.mut 2>&1; m=$?
git checkout -- .
make -f Makefile.unx clean >/dev/null 2>&1
echo "RESULT $M clean_demo=$c tests=$t mutated_demo=$m"
rm -f /tmp/cm.$$.*
