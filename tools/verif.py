#!/usr/bin/env python3
"""Common machinery of the /verif checks: TLC runs, trace validation, evidence, findings."""
import json, os, re, shutil, subprocess, sys, time, tempfile, hashlib, random

VERIF = os.path.dirname(os.path.dirname(os.path.abspath(__file__)))
SPEC = os.path.join(VERIF, "spec")
OUT = os.path.join(VERIF, "out")
CLASSES = os.path.join(VERIF, "overrides", "classes")
JARS = "/opt/veriftools/tla/tla2tools.jar:/opt/veriftools/tla/CommunityModules-deps.jar"
sys.path.insert(0, os.path.join(VERIF, "tools"))
import build  # noqa: E402


class MachineryError(Exception):
    pass


def ensure_overrides():
    src = os.path.join(VERIF, "overrides", "src", "isal")
    srcs = [os.path.join(src, f) for f in sorted(os.listdir(src)) if f.endswith(".java")]
    stamp = os.path.join(CLASSES, ".stamp")
    h = hashlib.sha256(b"".join(open(s, "rb").read() for s in srcs)).hexdigest()
    if os.path.exists(stamp) and open(stamp).read() == h:
        return
    os.makedirs(CLASSES, exist_ok=True)
    r = subprocess.run(["javac", "-cp", JARS, "-d", CLASSES] + srcs, stdout=subprocess.PIPE, stderr=subprocess.STDOUT)
    if r.returncode:
        raise MachineryError("javac failed:\n" + r.stdout.decode())
    open(stamp, "w").write(h)


_run_counter = [0]
import threading
_lock = threading.Lock()


def scratch(prefix):
    with _lock:
        _run_counter[0] += 1
        n = _run_counter[0]
    d = os.path.join(OUT, "run", str(os.getpid()), "%s.%d" % (prefix, n))
    shutil.rmtree(d, ignore_errors=True)
    os.makedirs(d)
    return d


def tlc(spec, cfg=None, env=None, workers=1, extra=(), timeout=1100, xmx="6g", dfs=False, simulate=None):
    """Run TLC on spec/<spec>.tla; returns (rc, stdout). rc 0 = no error found."""
    ensure_overrides()
    meta = scratch("tlc-" + spec)
    cmd = ["java", "-XX:+UseParallelGC", "-Xss256m", "-Xmx" + xmx,
           "-Dtlc2.overrides.TLCOverrides=tlc2.overrides.TLCOverrides:isal.Prim",
           "-Djava.io.tmpdir=" + meta]     # TLC unpacks its standard modules into a temp dir per run: keep it inside the run's scratch
    if dfs:
        cmd.append("-Dtlc2.tool.queue.IStateQueue=StateDeque")
    cmd += ["-cp", CLASSES + ":" + JARS, "tlc2.TLC", "-workers", str(workers), "-metadir", meta, "-noGenerateSpecTE"]
    if simulate:
        cmd += ["-simulate", simulate]
    cmd += list(extra)
    cmd += ["-config", os.path.join(SPEC, cfg or (spec + ".cfg")), os.path.join(SPEC, spec + ".tla")]
    e = dict(os.environ)
    e.pop("JAVA_TOOL_OPTIONS", None)
    if env:
        e.update(env)
    t = time.time()
    try:
        r = subprocess.run(cmd, cwd=SPEC, env=e, stdout=subprocess.PIPE, stderr=subprocess.STDOUT, timeout=timeout)
        out = r.stdout.decode(errors="replace")
        rc = r.returncode
    except subprocess.TimeoutExpired as ex:
        out = (ex.stdout or b"").decode(errors="replace") + "\nTIMEOUT"
        rc = 124
    shutil.rmtree(meta, ignore_errors=True)
    return rc, out, time.time() - t


def tlc_stats(out):
    """states generated / distinct from TLC's final line."""
    m = re.findall(r"(\d+) states generated, (\d+) distinct states found", out)
    if m:
        return int(m[-1][0]), int(m[-1][1])
    return 0, 0


_dtable = []


def dispatch_table_file():
    """entry -> (resolver macro, candidate families) of /repo's working tree as a JSON file for DispatchLadder"""
    import disp_table
    with _lock:
        if not _dtable:
            _dtable.append(None)
            first = True
        else:
            first = False
    if first:
        d = os.path.join(OUT, "run", str(os.getpid()))
        os.makedirs(d, exist_ok=True)
        p = os.path.join(d, "dtable.json")
        with open(p, "w") as fp:
            json.dump(disp_table.table(), fp)
        _dtable[0] = p
    while _dtable[0] is None:
        time.sleep(0.05)
    return _dtable[0]


def validate_trace(trace_spec, trace_path, env=None, timeout=1100, dfs=False):
    """Validate one ndjson trace with spec/<trace_spec>.tla. Returns dict(consumed, events, viol, tlc_s, states)."""
    res = trace_path + ".result.json"
    if os.path.exists(res):
        os.remove(res)
    e = {"TRACE": trace_path, "RESULT": res}
    if env:
        e.update(env)
    if trace_spec == "TraceDispatch" and "DTABLE" not in e:
        e["DTABLE"] = dispatch_table_file()
    rc, out, dt = tlc(trace_spec, env=e, workers=1, timeout=timeout, dfs=dfs)
    if not os.path.exists(res):
        raise MachineryError("trace validation with %s produced no result (rc=%d):\n%s" % (trace_spec, rc, out[-3000:]))
    r = json.load(open(res))
    r["tlc_s"] = dt
    r["tlc_rc"] = rc
    r["states"] = tlc_stats(out)
    r["out_tail"] = out[-1500:]
    return r


def run_driver(exe, commands, trace_path, timeout=900, env=None):
    """Run a harness driver on a command text. Returns (rc, stderr)."""
    cmdfile = trace_path + ".cmd"
    open(cmdfile, "w").write(commands)
    e = dict(os.environ)
    if env:
        e.update(env)
    try:
        r = subprocess.run([exe, cmdfile, trace_path], stdout=subprocess.PIPE, stderr=subprocess.PIPE, timeout=timeout, env=e)
        return r.returncode, r.stderr.decode(errors="replace")
    except subprocess.TimeoutExpired:
        return 124, "driver timeout"


# ----------------------------------------------------------------------------- findings
def load_findings():
    p = os.path.join(VERIF, "known_findings.jsonl")
    out = []
    if os.path.exists(p):
        for line in open(p):
            line = line.strip()
            if line and not line.startswith("#"):
                out.append(json.loads(line))
    return out


def match_finding(findings, prop, what, info_text):
    """A violation matches a `known` entry when property and fingerprint agree and every
    `where` token of the entry occurs in the violation's info (narrow on purpose)."""
    for f in findings:
        if f.get("status") != "known" or f["property"] != prop or f["what"] != what:
            continue
        if all(tok in info_text for tok in f.get("where", [])):
            return f
    return None


# ----------------------------------------------------------------------------- check result plumbing
class Check:
    def __init__(self, prop, level, tier, seed):
        self.prop, self.level, self.tier, self.seed = prop, level, tier, seed
        self.t0 = time.time()
        self.violations = []      # (what, info, replay_path)
        self.known_hits = {}
        self.drift = []
        self.cov = {"evaluations": 0, "distinct_nontrivial": 0, "rule": "", "samples": []}
        self.assumptions = []
        self.findings = load_findings()
        self.distinct = set()
        self.other = {}

    def add_violation(self, v, replay_lines=None, tag=""):
        """v: violation record from a trace result (dict with p, what, l, info)."""
        info_text = json.dumps(v.get("info"))
        f = match_finding(self.findings, v["p"], v["what"], info_text)
        if f:
            self.known_hits.setdefault(f["id"], [f, 0])[1] += 1
            return
        os.makedirs(os.path.join(OUT, "replay"), exist_ok=True)
        path = os.path.join(OUT, "replay", "%s-%s-%d-%d.txt" % (self.prop, v["what"], os.getpid(), len(self.violations)))
        with open(path, "w") as fp:
            fp.write("# property %s violation %s at event %s %s\n# info: %s\n" % (v["p"], v["what"], v.get("l"), tag, info_text))
            if replay_lines:
                fp.write(replay_lines)
        self.violations.append((v["what"], info_text, path))

    def finish(self):
        for fid, (f, n) in sorted(self.known_hits.items()):
            print("KNOWN-FINDING: property=%s %s (%s; %d occurrence(s) this run)" % (f["property"], f["title"], fid, n))
        for d in self.drift[:20]:
            print("MODEL-DRIFT property=%s %s" % (self.prop, d))
        if self.other:
            print("NOTE property=%s events of this run also violated other properties (reported by their own checks): %s"
                  % (self.prop, json.dumps(self.other, sort_keys=True)))
            self.cov["other_property_violations_seen"] = self.other
        seen = set()
        for what, info, path in self.violations:
            key = (what, info[:200])
            if key in seen:
                continue
            seen.add(key)
            if len(seen) > 25:
                break
            print("VIOLATION property=%s replay=%s  (%s %s)" % (self.prop, path, what, info[:300]))
        ev = {
            "property_id": self.prop, "tier": self.tier, "seed": self.seed, "level": self.level,
            "coverage": self.cov, "assumptions": self.assumptions,
            "wall_s": round(time.time() - self.t0, 2), "violations": len(self.violations),
        }
        self.cov.setdefault("known_findings_hit", sorted(self.known_hits.keys()))
        self.cov.setdefault("model_drift", self.drift[:20])
        os.makedirs(os.path.join(VERIF, "evidence"), exist_ok=True)
        with open(os.path.join(VERIF, "evidence", self.prop + ".json"), "w") as fp:
            json.dump(ev, fp, indent=1, default=str)
        return 1 if self.violations else 0


def cleanup_runs():
    shutil.rmtree(os.path.join(OUT, "run", str(os.getpid())), ignore_errors=True)
