------------------------------- MODULE RhImpl -------------------------------
(***************************************************************************)
(* IMPLEMENTATION-SHAPED model of rolling_hash2_run (rolling_hash2.c) on a  *)
(* toy word (8 bits), a toy alphabet and a small window, checked            *)
(* exhaustively against the closed-form definition C09 is about:            *)
(*                                                                          *)
(*   the hash after a run is H(last W stream bytes), where                  *)
(*   H(win) = XOR_i rotl^(W-i)(T1[win[i]]), T2[x] = rotl^W(T1[x]);          *)
(*   a run stops at the first position whose window hashes to the trigger   *)
(*   under the mask, else after max_len bytes;                              *)
(*   consequently hit positions do not depend on how the stream is cut.     *)
(*                                                                          *)
(* The three phases of the C code are transcribed: (1) the head loop over   *)
(* the first W bytes, which takes the outgoing byte from the saved history  *)
(* and has two early exits (buffer exhausted, hit) that shift the history;  *)
(* (2) the bulk scan (_rolling_hash2_run_until), which takes the outgoing   *)
(* byte from buffer[i - W]; (3) the epilogue that saves buffer[i-W .. i).   *)
(* TLC explores every stream over the alphabet, every initial window and    *)
(* every sequence of max_len values.  The real code is bound to the same    *)
(* abstract state by TraceMh (offset, hash and - drift level - the saved    *)
(* window of the public state after every call).                            *)
(***************************************************************************)
EXTENDS Naturals, Sequences, Bitwise, FiniteSets

CONSTANTS W, Alphabet, StreamLen, Masks,
          Variant      \* "code" = the transcription; "short-exit-keeps-old-hash" = a deliberately wrong variant (non-vacuity)
ASSUME W \in 1..4

Rotl(h) == ((h * 2) % 256) + (h \div 128)
RECURSIVE RotlN(_, _)
RotlN(h, n) == IF n = 0 THEN h ELSE RotlN(Rotl(h), n - 1)
T1(x) == (37 * (x + 1) + 11 * x * x + 5) % 256        \* any fixed table; distinct values for the toy alphabet
T2(x) == RotlN(T1(x), W)
RECURSIVE HOf(_, _)
HOf(win, h) == IF win = << >> THEN h ELSE HOf(Tail(win), Rotl(h) ^^ T1(Head(win)))
H(win) == HOf(win, 0)                                    \* closed form: the hash of a window from scratch
LastW(s) == SubSeq(s, Len(s) - W + 1, Len(s))

VARIABLES stream, pos, hist, hash, hits, specHits, mask, trig, bad
vars == << stream, pos, hist, hash, hits, specHits, mask, trig, bad >>

\* ---------------------------------------------------------------- the definition (what C09 states)
\* first j in 1..Len(buf) such that the window ending at buf[j] hashes to the trigger; 0 if none
SpecRun(h0, buf, m, t) ==
  LET full == h0 \o buf
      HitAt(j) == (H(SubSeq(full, j + 1, j + W)) & m) = t
      js == {j \in 1..Len(buf) : HitAt(j)}
      off == IF js = {} THEN Len(buf) ELSE CHOOSE j \in js : \A k \in js : j <= k
  IN [off |-> off, hit |-> js # {}, hist |-> LastW(h0 \o SubSeq(buf, 1, off))]

\* ---------------------------------------------------------------- the code
HashFn(h, new, old) == (Rotl(h) ^^ T1(new)) ^^ T2(old)
\* phase 1: for (i = 0; i < w; i++) ...   state: i (0-based count of bytes consumed), h
RECURSIVE HeadLoop(_, _, _, _, _, _)
HeadLoop(i, h, hs, buf, m, t) ==
  IF i = W THEN [done |-> FALSE, i |-> i, h |-> h]
  ELSE IF i = Len(buf)                                   \* buffer exhausted inside the head loop
       THEN [done |-> TRUE, hit |-> FALSE, off |-> i, h |-> h, hist |-> SubSeq(hs, i + 1, W) \o SubSeq(buf, 1, i)]
       ELSE LET h1 == HashFn(h, buf[i + 1], hs[i + 1])
            IN IF (h1 & m) = t
               THEN [done |-> TRUE, hit |-> TRUE, off |-> i + 1, h |-> h1, hist |-> SubSeq(hs, i + 2, W) \o SubSeq(buf, 1, i + 1)]
               ELSE HeadLoop(i + 1, h1, hs, buf, m, t)
\* phase 2: _rolling_hash2_run_until(&i, buffer_length, t1, t2, buffer, buffer - w, hash, mask, trigger)
RECURSIVE Until(_, _, _, _, _)
Until(i, h, buf, m, t) ==
  IF i >= Len(buf) THEN [i |-> i, h |-> h]
  ELSE LET h1 == HashFn(h, buf[i + 1], buf[i + 1 - W])
       IN IF (h1 & m) = t THEN [i |-> i, h |-> h1] ELSE Until(i + 1, h1, buf, m, t)
ImplRun(hs, h, buf, m, t) ==
  LET p1 == HeadLoop(0, h, hs, buf, m, t) IN
  IF p1.done THEN [off |-> p1.off, hit |-> p1.hit, h |-> IF Variant = "short-exit-keeps-old-hash" /\ ~p1.hit THEN h ELSE p1.h, hist |-> p1.hist]
  ELSE LET p2 == Until(p1.i, p1.h, buf, m, t) IN
       \* the code re-tests (hash & mask) == trigger after the scan: true also when the scan ran out on a hashing-to-trigger
       \* value carried in from the head loop - cannot happen, the head loop would have returned
       IF (p2.h & m) = t /\ p2.i < Len(buf)
       THEN [off |-> p2.i + 1, hit |-> TRUE, h |-> p2.h, hist |-> SubSeq(buf, p2.i + 1 - W + 1, p2.i + 1)]
       ELSE IF (p2.h & m) = t
            THEN [off |-> p2.i + 1, hit |-> TRUE, h |-> p2.h, hist |-> << >>]      \* would read past the buffer: flagged by LenOk
            ELSE [off |-> p2.i, hit |-> FALSE, h |-> p2.h, hist |-> SubSeq(buf, p2.i - W + 1, p2.i)]

Streams == [1..StreamLen -> Alphabet]
Windows == [1..W -> Alphabet]
Init == /\ stream \in Streams /\ hist \in Windows /\ hash = H(hist) /\ pos = 0 /\ hits = << >> /\ specHits = << >>
        /\ mask \in Masks /\ trig \in {t \in 0..255 : (t & mask) = t /\ t <= 3} /\ bad = FALSE

Run(maxlen) ==
  /\ pos + maxlen <= StreamLen
  /\ LET buf == SubSeq(stream, pos + 1, pos + maxlen)
         r == ImplRun(hist, hash, buf, mask, trig)
         s == SpecRun(hist, buf, mask, trig)
     IN /\ bad' = (bad \/ r.off # s.off \/ r.hit # s.hit \/ r.hist # s.hist \/ r.h # H(s.hist) \/ Len(r.hist) # W)
        /\ hist' = r.hist /\ hash' = r.h /\ pos' = pos + r.off
        /\ hits' = IF r.hit THEN Append(hits, pos + r.off) ELSE hits
        /\ specHits' = IF s.hit THEN Append(specHits, pos + s.off) ELSE specHits
  /\ UNCHANGED << stream, mask, trig >>
Next == \E n \in 0..StreamLen : Run(n)
Spec == Init /\ [][Next]_vars

ImplEqualsDefinition == ~bad
HashIsFunctionOfWindow == hash = H(hist)
WindowIsLastBytes == pos >= W => hist = SubSeq(stream, pos - W + 1, pos)
\* cut-independence: the hits found so far are exactly the definition's hits over the consumed prefix, scanning from each hit on
RECURSIVE AllHits(_, _, _)
AllHits(h0, from, acc) ==      \* hits of the uncut stream up to pos, restarting the scan after each hit
  IF from >= pos THEN acc
  ELSE LET s == SpecRun(h0, SubSeq(stream, from + 1, pos), mask, trig)
       IN IF s.hit THEN AllHits(s.hist, from + s.off, Append(acc, from + s.off)) ELSE acc
=============================================================================
