------------------------------ MODULE AesModes ------------------------------
(***************************************************************************)
(* The block-cipher modes isa-l_crypto implements, written as executable   *)
(* TLA+ definitions over byte sequences:                                   *)
(*   CBC  - NIST SP 800-38A 6.2                        (C04)               *)
(*   XTS  - IEEE Std 1619-2007 5.3/5.4 incl. ciphertext stealing  (C03)    *)
(*   GCM  - NIST SP 800-38D 7.1/7.2 with a 96-bit IV   (C02, C07)          *)
(* Block primitives (Prim!AesEncBlock, AesDecBlock, GfMul128, XorBytes)    *)
(* have TLA+ definitions in Aes / Prim and Java bodies for speed.          *)
(* TraceAes evaluates these definitions on the arguments of each recorded  *)
(* library call and compares every output byte.                           *)
(***************************************************************************)
EXTENDS Naturals, Sequences, SequencesExt, Prim

Blk(m, i) == SubSeq(m, 16 * (i - 1) + 1, 16 * i)          \* i-th 16-byte block, 1-based
NBlocks(m) == Len(m) \div 16
Zeros(n) == [i \in 1..n |-> 0]
RECURSIVE Flatten(_)
Flatten(ss) == IF Len(ss) = 0 THEN << >> ELSE Head(ss) \o Flatten(Tail(ss))
\* concatenation of f(1) .. f(n) without deep recursion
ConcatMap(n, f(_)) == FoldLeft(LAMBDA acc, i : acc \o f(i), << >>, [i \in 1..n |-> i])

----------------------------------------------------------------------------
(* CBC (SP 800-38A 6.2); len is a non-zero multiple of 16                  *)
CbcEnc(key, iv, pt) ==
  LET step(acc, i) == LET c == AesEncBlock(key, XorBytes(Blk(pt, i), acc.prev))
                      IN [prev |-> c, out |-> acc.out \o c]
  IN FoldLeft(step, [prev |-> iv, out |-> << >>], [i \in 1..NBlocks(pt) |-> i]).out

CbcDec(key, iv, ct) ==
  ConcatMap(NBlocks(ct), LAMBDA i : XorBytes(AesDecBlock(key, Blk(ct, i)), IF i = 1 THEN iv ELSE Blk(ct, i - 1)))

----------------------------------------------------------------------------
(* XTS (IEEE 1619): tweak T_0 = E(K2, i); T_{j+1} = T_j * alpha in         *)
(* GF(2^128), little-endian byte order, feedback 0x87.                     *)
MulAlpha(t) ==
  LET sh == [i \in 1..16 |-> ((t[i] * 2) % 256) + (IF i > 1 /\ t[i - 1] >= 128 THEN 1 ELSE 0)]
  IN IF t[16] >= 128 THEN [sh EXCEPT ![1] = XorBytes(<< sh[1] >>, << 135 >>)[1]] ELSE sh

\* tweaks T_0 .. T_{n-1} as a sequence
Tweaks(k2, tw, n) ==
  FoldLeft(LAMBDA acc, i : Append(acc, IF i = 1 THEN AesEncBlock(k2, tw) ELSE MulAlpha(acc[i - 1])),
           << >>, [i \in 1..n |-> i])

XtsBlockEnc(k1, t, p) == XorBytes(AesEncBlock(k1, XorBytes(p, t)), t)
XtsBlockDec(k1, t, c) == XorBytes(AesDecBlock(k1, XorBytes(c, t)), t)

\* data unit of len >= 16 bytes; m = full blocks, b = trailing bytes (ciphertext stealing if b > 0)
XtsEnc(k1, k2, tw, pt) ==
  LET m == Len(pt) \div 16
      b == Len(pt) % 16
      T == Tweaks(k2, tw, m + 1)
  IN IF b = 0
     THEN ConcatMap(m, LAMBDA j : XtsBlockEnc(k1, T[j], Blk(pt, j)))
     ELSE LET head == ConcatMap(m - 1, LAMBDA j : XtsBlockEnc(k1, T[j], Blk(pt, j)))
              cc == XtsBlockEnc(k1, T[m], Blk(pt, m))
              pTail == SubSeq(pt, 16 * m + 1, Len(pt))
              cTail == SubSeq(cc, 1, b)
              pp == pTail \o SubSeq(cc, b + 1, 16)
              cLast == XtsBlockEnc(k1, T[m + 1], pp)
          IN head \o cLast \o cTail

XtsDec(k1, k2, tw, ct) ==
  LET m == Len(ct) \div 16
      b == Len(ct) % 16
      T == Tweaks(k2, tw, m + 1)
  IN IF b = 0
     THEN ConcatMap(m, LAMBDA j : XtsBlockDec(k1, T[j], Blk(ct, j)))
     ELSE LET head == ConcatMap(m - 1, LAMBDA j : XtsBlockDec(k1, T[j], Blk(ct, j)))
              \* the last full ciphertext block was produced with the LAST tweak: order swaps on decrypt
              pp == XtsBlockDec(k1, T[m + 1], Blk(ct, m))
              cTail == SubSeq(ct, 16 * m + 1, Len(ct))
              pTail == SubSeq(pp, 1, b)
              cc == cTail \o SubSeq(pp, b + 1, 16)
              pLast == XtsBlockDec(k1, T[m], cc)
          IN head \o pLast \o pTail

----------------------------------------------------------------------------
(* GCM (SP 800-38D), 96-bit IV: J0 = IV || 0^31 || 1                        *)
J0(iv) == iv \o << 0, 0, 0, 1 >>
\* inc32: the last four bytes as a big-endian counter, modulo 2^32
Inc32(cb) ==
  LET b16 == (cb[16] + 1) % 256
      c15 == IF cb[16] = 255 THEN 1 ELSE 0
      b15 == (cb[15] + c15) % 256
      c14 == IF c15 = 1 /\ cb[15] = 255 THEN 1 ELSE 0
      b14 == (cb[14] + c14) % 256
      c13 == IF c14 = 1 /\ cb[14] = 255 THEN 1 ELSE 0
      b13 == (cb[13] + c13) % 256
  IN SubSeq(cb, 1, 12) \o << b13, b14, b15, b16 >>
RECURSIVE IncN(_, _)
IncN(cb, n) == IF n = 0 THEN cb ELSE IncN(Inc32(cb), n - 1)
\* counter block number i (i >= 0) of a message: inc32^i(J0); built from a 32-bit addition
AddCtr(cb, n) ==      \* cb with n (< 2^24) added to its 32-bit big-endian tail
  LET v0 == cb[16] + (n % 256)
      v1 == cb[15] + ((n \div 256) % 256) + (v0 \div 256)
      v2 == cb[14] + ((n \div 65536) % 256) + (v1 \div 256)
      v3 == cb[13] + (n \div 16777216) + (v2 \div 256)
  IN SubSeq(cb, 1, 12) \o << v3 % 256, v2 % 256, v1 % 256, v0 % 256 >>

\* key stream bytes [pos, pos+len) of the message (pos counted from 0): block i uses inc32^(i+1)(J0)
KeyStream(key, iv, pos, len) ==
  IF len = 0 THEN << >>
  ELSE LET first == pos \div 16
           lastb == (pos + len - 1) \div 16
           ks == ConcatMap(lastb - first + 1, LAMBDA k : AesEncBlock(key, AddCtr(J0(iv), first + k)))
       IN SubSeq(ks, (pos % 16) + 1, (pos % 16) + len)

Gctr(key, iv, x) == XorBytes(x, KeyStream(key, iv, 0, Len(x)))

PadTo16(x) == x \o Zeros((16 - (Len(x) % 16)) % 16)
\* 64-bit big-endian bit length of n bytes (n < 2^28)
Len64(n) == LET bits == n * 8
            IN << 0, 0, 0, 0, (bits \div 16777216) % 256, (bits \div 65536) % 256, (bits \div 256) % 256, bits % 256 >>
Ghash(h, x) == FoldLeft(LAMBDA y, i : GfMul128(XorBytes(y, Blk(x, i)), h), Zeros(16), [i \in 1..NBlocks(x) |-> i])

HashKey(key) == AesEncBlock(key, Zeros(16))
GcmTag(key, iv, aad, ct, t) ==
  LET s == Ghash(HashKey(key), PadTo16(aad) \o PadTo16(ct) \o Len64(Len(aad)) \o Len64(Len(ct)))
  IN SubSeq(XorBytes(s, AesEncBlock(key, J0(iv))), 1, t)

GcmEnc(key, iv, aad, pt, t) ==
  LET ct == Gctr(key, iv, pt) IN [out |-> ct, tag |-> GcmTag(key, iv, aad, ct, t)]
\* the library's decrypt returns the plaintext and the tag it computed (the caller compares)
GcmDec(key, iv, aad, ct, t) ==
  [out |-> Gctr(key, iv, ct), tag |-> GcmTag(key, iv, aad, ct, t)]
=============================================================================
