SPECIFICATION Spec
CONSTANTS
  W = 3
  Alphabet = {0, 1, 2}
  StreamLen = 7
  Masks = {1, 3, 6}
  Variant = "code"
INVARIANTS ImplEqualsDefinition HashIsFunctionOfWindow WindowIsLastBytes
CHECK_DEADLOCK FALSE
