------------------------------ MODULE TraceHash ------------------------------
(***************************************************************************)
(* Trace validation of the real hash managers against HashAPI.             *)
(* Events (harness/drv_hash.c), one per public call return:                *)
(*   HReset  alg fam nctx style rc obs                                     *)
(*   HSubmit c flags seg=[b,off,hi,lo] ret rc chg echg mchg ud sts errs    *)
(*           rtl dig obs                                                   *)
(*   HFlush  ret rc chg echg mchg ud sts errs rtl dig obs                  *)
(* Every event is explained by exactly one HashAPI action whose arguments  *)
(* are the logged ones; every observable of the event is compared with     *)
(* the specification state (oracle = the spec: expected digests come from  *)
(* HashStd!Digest / Prim!DigestOfSegs over the stream the SPEC recorded).  *)
(* A mismatch is a violation record; when the mismatch leaves the          *)
(* relation between implementation and specification state undefined      *)
(* (e.g. a context handed back that the manager did not hold) the rest of  *)
(* that behaviour is skipped (`lost`) and validation resumes at the next   *)
(* HReset.                                                                 *)
(***************************************************************************)
EXTENDS HashAPI, HashStd, Machine, TraceLib

VARIABLES l, alg, fam, style, nctx, psts, lost, viol
tvars == << vars, l, alg, fam, style, nctx, psts, lost, viol >>

\* contexts: as many as the largest manager of the trace uses (passed by the check as MAXN)
TraceCtx == 0..(atoi(IOEnv.MAXN) - 1)
TraceSegs == {}
TraceSegLen(s) == << s[3], s[4] >>

\* documented lane capacity per algorithm (ISAL_*_MAX_LANES)
MaxLanes(a) == CASE a = "sha1" -> 16 [] a = "sha256" -> 16 [] a = "sha512" -> 8
                 [] a = "md5" -> 32 [] a = "sm3" -> 16

\* error field -> isal_ return code (include/isal_crypto_api.h)
CodeMap(e) == CASE e = 0 -> 0 [] e = EINVALID -> 2011 [] e = EPROCESSING -> 2012
                [] e = ECOMPLETED -> 2013 [] OTHER -> -1

\* the entry points reached through a dispatch pointer may perform their one-time binding
MayBind == fam \in {"isal", "legacy", "int"}

SetOf(seq) == {seq[i] : i \in 1..Len(seq)}
Used == 0..(nctx - 1)

\* a fault inside a call is reported under "FAULT": every check of a functional property counts it
\* (the call never produced its result), and C08 counts it as an out-of-range access.
MachineChecks(e) ==
     Chk(ABIOk(e.obs), "C19", "abi", l, << e.e, alg, fam, e.obs >>)
  \o Chk(NoFault(e.obs), "FAULT", "call-faulted", l, << e.e, alg, fam, e.obs.fault, e.obs.fw >>)
  \o Chk(MemOk(e.obs), "C08", "mem", l, << e.e, alg, fam, e.obs >>)
  \o Chk(StaticOk(e.obs, MayBind), "C18", "static-write", l, << e.e, alg, fam, e.obs.stsym >>)

\* bytes of a short stream, for the pure TLA+ definition of the digest
RECURSIVE StreamBytes(_)
StreamBytes(ss) == IF Len(ss) = 0 THEN << >>
                   ELSE PatBytes(ss[1][1], ss[1][2], ss[1][4]) \o StreamBytes(Tail(ss))

ExpectedDigest(a, ss, tot) ==
  LET viaSegs == DigestOfSegs(a, ss)
  IN IF tot[1] = 0 /\ tot[2] <= 400
     THEN LET viaTla == ToHex(Digest(a, StreamBytes(ss)))
          IN IF viaTla = viaSegs THEN viaSegs ELSE "spec-inconsistent"
     ELSE viaSegs

Big(tot) == tot[1] >= 512          \* total >= 2^29 bytes

\* observables of a context handed back by Submit or Flush, against the post-state
ReturnChecks(e, r) ==
  IF r = NULL THEN << >>
  ELSE
       Chk(e.sts[r + 1] = (IF last'[r] THEN 4 ELSE 0), "C06", "returned-status", l,
           << alg, fam, r, e.sts[r + 1], last'[r] >>)
    \o Chk(e.rtl = total'[r], "C15", "total-length", l, << alg, fam, r, e.rtl, total'[r] >>)
    \o (IF last'[r]
        THEN LET exp == ExpectedDigest(alg, stream'[r], total'[r])
             IN Chk(e.dig = exp, IF Big(total'[r]) THEN "C15" ELSE "C01", "digest", l,
                    << alg, fam, r, stream'[r], e.dig, exp >>)
        ELSE << >>)

CommonChecks(e, mayChange) ==
     Chk(e.ud = 1, "C06", "user-data-modified", l, << alg, fam >>)
  \o Chk(SetOf(e.chg) \subseteq mayChange, "C06", "foreign-context-modified", l,
         << alg, fam, e.chg, mayChange >>)
  \o Chk(\A x \in held' \cap Used : e.sts[x + 1] % 2 = 1, "C06", "held-not-processing", l,
         << alg, fam, held', e.sts >>)
  \o Chk(\A x \in Used \ held' : e.sts[x + 1] % 2 = 0, "C06", "returned-while-processing", l,
         << alg, fam, held', e.sts >>)
  \o Chk(Cardinality(held') <= MaxLanes(alg), "C06", "more-held-than-lanes", l, << alg, fam, held' >>)
  \o Chk(\A x \in Used : e.errs[x + 1] = err'[x], "C11", "error-field", l,
         << alg, fam, e.errs, [x \in Used |-> err'[x]] >>)
  \o MachineChecks(e)

SameMgr == UNCHANGED << alg, fam, style, nctx >>
IsEv(name) == l <= NEv /\ Tr[l].e = name
Step(v) == /\ l' = l + 1
           /\ viol' = Cap(viol \o v)
           /\ PubResult(viol', l')

TInit == /\ Init
         /\ l = 1 /\ alg = "none" /\ fam = "none" /\ style = 0 /\ nctx = 0
         /\ psts = << >> /\ lost = TRUE /\ viol = << >>
         /\ PubResult(<< >>, 1)

TReset ==
  /\ IsEv("HReset")
  /\ LET e == Tr[l] IN
     /\ alg' = e.alg /\ fam' = e.fam /\ style' = e.style /\ nctx' = e.nctx
     /\ st' = [c \in Ctx |-> "fresh"] /\ stream' = [c \in Ctx |-> << >>]
     /\ total' = [c \in Ctx |-> ZeroPair] /\ last' = [c \in Ctx |-> FALSE]
     /\ held' = {} /\ err' = [c \in Ctx |-> 0]
     /\ psts' = [i \in 1..e.nctx |-> 4]
     /\ lost' = FALSE
     /\ Step(Chk(e.rc = 0, "C16", "init-rc", l, << e.alg, e.fam, e.rc >>)
             \o Chk(ABIOk(e.obs), "C19", "abi", l, << e.e, e.alg, e.fam, e.obs >>)
             \o Chk(MemOk(e.obs), "C08", "mem", l, << e.e, e.alg, e.fam, e.obs >>)
             \o Chk(StaticOk(e.obs, e.fam \in {"isal", "legacy", "int"}), "C18", "static-write", l,
                    << e.e, e.alg, e.fam, e.obs.stsym >>))

\* a submit that the specification says must be refused
TSubmitReject ==
  /\ IsEv("HSubmit") /\ ~lost /\ SameMgr /\ Tr[l].obs.fault = 0
  /\ LET e == Tr[l]  c == e.c  rej == RejectCodes(c, e.flags) IN
     /\ rej # {}
     /\ IF e.ret = c /\ e.errs[c + 1] \in rej
        THEN /\ SubmitReject(c, e.flags, e.errs[c + 1])
             /\ lost' = FALSE
             /\ psts' = e.sts
             /\ Step(   Chk(e.chg = << >> /\ e.mchg = 0 /\ SetOf(e.echg) \subseteq {c} /\ e.sts = psts,
                            "C11", "reject-changed-state", l, << alg, fam, c, e.flags, e.chg, e.mchg, e.echg >>)
                     \o Chk(style = 0 \/ e.rc = CodeMap(e.errs[c + 1]), "C11", "reject-rc", l,
                            << alg, fam, c, e.flags, e.rc, e.errs[c + 1] >>)
                     \o CommonChecks(e, {}))
        ELSE /\ UNCHANGED vars
             /\ lost' = TRUE
             /\ psts' = e.sts
             /\ Step(   Chk(FALSE, "C11", "reject-expected", l,
                            << alg, fam, c, e.flags, rej, e.ret, e.errs[c + 1], st[c] >>)
                     \* a context the manager already holds was taken a second time: its pending
                     \* submission can no longer be handed back exactly once
                     \o Chk(c \notin held, "C06", "submit-accepted-for-held-context", l,
                            << alg, fam, c, e.flags, e.ret, st[c] >>))

TSubmitAccept ==
  /\ IsEv("HSubmit") /\ ~lost /\ SameMgr /\ Tr[l].obs.fault = 0
  /\ LET e == Tr[l]  c == e.c  r == e.ret IN
     /\ RejectCodes(c, e.flags) = {}
     /\ IF r = NULL \/ r \in (held \cup {c})
        THEN /\ SubmitAccept(c, e.flags, e.seg, r)
             /\ lost' = FALSE
             /\ psts' = e.sts
             /\ Step(   ReturnChecks(e, r)
                     \o Chk(style = 0 \/ e.rc = 0, "C11",
                            IF r # NULL /\ r # c /\ e.rc = CodeMap(err[r]) /\ err[r] # 0
                            THEN "valid-submit-reports-stale-error-of-returned-context"
                            ELSE "valid-submit-reported-failed", l,
                            << alg, fam, c, e.flags, r, e.rc >>)
                     \o CommonChecks(e, held \cup {c}))
        ELSE /\ UNCHANGED vars
             /\ lost' = TRUE
             /\ psts' = e.sts
             /\ Step(Chk(FALSE, "C06", "submit-returned-context-not-held", l,
                         << alg, fam, c, r, held >>))

TFlush ==
  /\ IsEv("HFlush") /\ ~lost /\ SameMgr /\ Tr[l].obs.fault = 0
  /\ LET e == Tr[l]  r == e.ret IN
     IF (held = {} /\ r = NULL) \/ (r # NULL /\ r \in held)
     THEN /\ Flush(r)
          /\ lost' = FALSE
          /\ psts' = e.sts
          /\ Step(   ReturnChecks(e, r)
                  \o Chk(style = 0 \/ e.rc = 0, "C11", "valid-flush-reported-failed", l, << alg, fam, r, e.rc >>)
                  \o Chk(r # NULL \/ (e.chg = << >> /\ e.mchg = 0), "C06", "empty-flush-changed-state", l,
                         << alg, fam, e.chg, e.mchg >>)
                  \o CommonChecks(e, held))
     ELSE /\ UNCHANGED vars
          /\ lost' = TRUE
          /\ psts' = e.sts
          /\ Step(Chk(FALSE, "C06",
                      IF r = NULL THEN "flush-null-while-holding" ELSE "flush-returned-context-not-held",
                      l, << alg, fam, r, held >>))

\* a call that faulted: it never returned; the behaviour ends there
TFault ==
  /\ l <= NEv /\ Tr[l].e \in {"HSubmit", "HFlush"} /\ ~lost /\ Tr[l].obs.fault # 0
  /\ UNCHANGED << vars, alg, fam, style, nctx, psts >>
  /\ lost' = TRUE
  /\ Step(MachineChecks(Tr[l]))

\* events of a behaviour whose relation to the spec state was lost, and separators
TSkip ==
  /\ l <= NEv
  /\ \/ Tr[l].e = "Mark"
     \/ (lost /\ Tr[l].e \in {"HSubmit", "HFlush"})
  /\ UNCHANGED << vars, alg, fam, style, nctx, psts, lost >>
  /\ Step(<< >>)

TNext == TFault \/ TReset \/ TSubmitReject \/ TSubmitAccept \/ TFlush \/ TSkip
TSpec == TInit /\ [][TNext]_tvars

TraceAccepted == WriteResult /\ TLCGet(2) = NEv + 1
=============================================================================
