#!/usr/bin/env python3
"""Scratch builds of /repo's *current working tree* and of the harness.

build_lib(variant) -> directory under /verif/out/cache/<key>/ holding
    isa-l_crypto.a   the static archive (hooks on: -D ISAL_CRYPTO_VERIF)
    isal_all.o       the archive as one relocatable object, writable sections renamed
                     to isal_data / isal_bss so the harness can snapshot them (C18)
    include/         copy of the headers of the tree that was built
    syms.txt         nm of the archive
The key is a content hash of every source file of /repo + the variant, so an edit to /repo
changes the key and forces a rebuild; nothing is ever taken from a stale tree.
Scratch trees live under /var/tmp and are removed as soon as the archive is copied out.
"""
import hashlib, os, shutil, subprocess, sys, fcntl, time, glob

REPO = os.environ.get("VERIF_REPO", "/repo")
VERIF = os.path.dirname(os.path.dirname(os.path.abspath(__file__)))
CACHE = os.path.join(VERIF, "out", "cache")
GUARD = "ISAL_CRYPTO_VERIF"
SRC_EXT = (".c", ".h", ".asm", ".inc", ".am", ".S", ".unx", ".mk", ".def")

# HAVE_AS_KNOWS_AVX512 is what the autotools build (the pinned baseline) passes to the assembler; Makefile.unx alone does not,
# which would leave the SM3 AVX-512 candidates out of the dispatcher
ASDEFS = ["HAVE_AS_KNOWS_AVX512"]
VARIANTS = {
    "def":  ["D=" + " ".join([GUARD] + ASDEFS)],
    "fips": ["D=" + " ".join([GUARD] + ASDEFS), "FIPS_MODE=y"],
    "nohook": ["D=" + " ".join(ASDEFS)],
    "nosafe": ["D=" + " ".join([GUARD] + ASDEFS), "SAFE_DATA=n"],
    "dbg": ["D=" + " ".join([GUARD] + ASDEFS), "lib_debug=1"],     # no -DNDEBUG: assertions are live (as in the autotools build)
    "fipsnsp": ["D=" + " ".join([GUARD] + ASDEFS), "FIPS_MODE=y", "SAFE_PARAM=n"],     # FIPS gate without the parameter checks
}


def _src_files():
    out = []
    for root, dirs, files in os.walk(REPO):
        dirs[:] = [d for d in dirs if d not in (".git", ".libs", "bin", "autom4te.cache", "_build", ".deps")]
        for f in files:
            if f.endswith(SRC_EXT) or f in ("Makefile.unx", "make.inc"):
                out.append(os.path.join(root, f))
    out.sort()
    return out


def tree_key(variant):
    h = hashlib.sha256()
    h.update(("v6|" + variant + "|" + " ".join(VARIANTS[variant])).encode())
    for p in _src_files():
        h.update(os.path.relpath(p, REPO).encode() + b"\0")
        with open(p, "rb") as f:
            h.update(hashlib.sha256(f.read()).digest())
    return h.hexdigest()[:20]


def _run(cmd, cwd=None, timeout=900):
    r = subprocess.run(cmd, cwd=cwd, stdout=subprocess.PIPE, stderr=subprocess.STDOUT, timeout=timeout)
    return r.returncode, r.stdout.decode(errors="replace")


def _prune(keep=8):
    ents = [d for d in glob.glob(os.path.join(CACHE, "lib-*")) if os.path.isdir(d)]
    ents.sort(key=lambda d: os.path.getmtime(d), reverse=True)
    for d in ents[keep:]:
        shutil.rmtree(d, ignore_errors=True)
    ents = [d for d in glob.glob(os.path.join(CACHE, "drv-*"))]
    ents.sort(key=lambda d: os.path.getmtime(d), reverse=True)
    for d in ents[40:]:
        try:
            os.remove(d)
        except OSError:
            shutil.rmtree(d, ignore_errors=True)


def build_lib(variant="def", quiet=True):
    os.makedirs(CACHE, exist_ok=True)
    key = tree_key(variant)
    dst = os.path.join(CACHE, "lib-%s-%s" % (variant, key))
    lock = open(os.path.join(CACHE, ".lock-%s" % variant), "w")
    fcntl.flock(lock, fcntl.LOCK_EX)
    try:
        if os.path.exists(os.path.join(dst, "ok")):
            os.utime(dst, None)
            return dst
        scratch = "/var/tmp/isal-verif-build.%d.%s" % (os.getpid(), variant)
        shutil.rmtree(scratch, ignore_errors=True)
        try:
            rc, out = _run(["rsync", "-a", "--exclude", ".git", "--exclude", "*.o", "--exclude", "*.lo",
                            "--exclude", ".libs", "--exclude", "bin", "--exclude", "*.la", "--exclude", "*.a",
                            "--exclude", "*.so*", "--exclude", "*.trs", "--exclude", "*.log",
                            "--exclude", "autom4te.cache", "--exclude", ".deps",
                            REPO + "/", scratch + "/"])
            if rc:
                raise RuntimeError("rsync failed: " + out[-2000:])
            rc, out = _run(["make", "-f", "Makefile.unx", "-j16", "lib"] + VARIANTS[variant], cwd=scratch)
            if rc:
                raise RuntimeError("library build failed (variant %s):\n%s" % (variant, out[-4000:]))
            tmp = dst + ".tmp%d" % os.getpid()
            shutil.rmtree(tmp, ignore_errors=True)
            os.makedirs(tmp)
            shutil.copy(os.path.join(scratch, "bin", "isa-l_crypto.a"), tmp)
            shutil.copytree(os.path.join(scratch, "include"), os.path.join(tmp, "include"))
            # internal headers some drivers need (struct layouts only)
            os.makedirs(os.path.join(tmp, "internal"))
            for rel in ("fips/internal_fips.h", "rolling_hash/rolling_hash2_table.h"):
                p = os.path.join(scratch, rel)
                if os.path.exists(p):
                    shutil.copy(p, os.path.join(tmp, "internal"))
            a = os.path.join(tmp, "isa-l_crypto.a")
            # writable sections renamed so the harness can snapshot exactly the library's statics (C18);
            # members stay separate objects so that ld --wrap seams work on internal calls
            rc, out = _run(["objcopy", "--rename-section", ".data=isal_data,alloc,load,data,contents",
                            "--rename-section", ".bss=isal_bss,alloc", a, os.path.join(tmp, "isal_renamed.a")])
            if rc:
                raise RuntimeError("objcopy failed: " + out[-2000:])
            rc, out = _run(["nm", os.path.join(tmp, "isal_renamed.a")])
            open(os.path.join(tmp, "syms.txt"), "w").write(out)
            names = sorted({l.split()[2] for l in out.splitlines()
                            if len(l.split()) == 3 and l.split()[1] == "T" and l.split()[2] != "TABLE"})
            with open(os.path.join(tmp, "symtab.c"), "w") as f:
                f.write("#include <string.h>\n#include <stdlib.h>\n")
                for n in names:
                    f.write("extern void %s(void);\n" % n)
                f.write("static const struct { const char *n; void (*f)(void); } tab[] = {\n")
                for n in names:
                    f.write('  {"%s", %s},\n' % (n, n))
                f.write("};\nstatic int cmp(const void *a, const void *b) { return strcmp((const char *)a, "
                        "((const typeof(tab[0]) *)b)->n); }\n")
                f.write("void *sym_lookup(const char *name) { const typeof(tab[0]) *e = bsearch(name, tab, "
                        "sizeof tab / sizeof tab[0], sizeof tab[0], cmp); return e ? (void *)e->f : NULL; }\n")
                f.write("int sym_count(void) { return (int)(sizeof tab / sizeof tab[0]); }\n"
                        "void *sym_at(int i, const char **name) { *name = tab[i].n; return (void *)tab[i].f; }\n"
                        "const char *sym_name(void *a) { for (unsigned i = 0; i < sizeof tab / sizeof tab[0]; i++) "
                        "if ((void *)tab[i].f == a) return tab[i].n; return NULL; }\n")
            # keep the per-object files for the ISA / statics inventory (C12, C18)
            os.makedirs(os.path.join(tmp, "objs"))
            for o in glob.glob(os.path.join(scratch, "bin", "*.o")):
                shutil.copy(o, os.path.join(tmp, "objs"))
            open(os.path.join(tmp, "ok"), "w").write(time.ctime())
            os.rename(tmp, dst)
        finally:
            shutil.rmtree(scratch, ignore_errors=True)
        _prune()
        return dst
    finally:
        fcntl.flock(lock, fcntl.LOCK_UN)
        lock.close()


HARNESS = os.path.join(VERIF, "harness")


def build_driver(name, sources, variant="def", wraps=(), extra=(), defines=()):
    """Link harness sources against the scratch-built library; returns path of the executable."""
    lib = build_lib(variant)
    h = hashlib.sha256()
    h.update((name + "|" + lib + "|" + " ".join(wraps) + "|" + " ".join(extra) + "|" + " ".join(defines)).encode())
    srcs = [os.path.join(HARNESS, s) for s in sources]
    deps = srcs + glob.glob(os.path.join(HARNESS, "*.h"))
    for p in sorted(deps):
        h.update(open(p, "rb").read())
    exe = os.path.join(CACHE, "drv-%s-%s" % (name, h.hexdigest()[:16]))
    if os.path.exists(exe):
        os.utime(exe, None)
        return exe
    cmd = ["gcc", "-O1", "-g", "-no-pie", "-fno-omit-frame-pointer", "-pthread", "-Wall", "-Wno-unused-function",
           "-Wno-deprecated-declarations", "-D" + GUARD,
           "-I" + os.path.join(lib, "include"), "-I" + os.path.join(lib, "internal"), "-I" + HARNESS]
    cmd += ["-D" + d for d in defines]
    cmd += srcs + [os.path.join(lib, "symtab.c"), "-Wl,--whole-archive", os.path.join(lib, "isal_renamed.a"), "-Wl,--no-whole-archive"]
    cmd += ["-Wl,--wrap=" + w for w in wraps]
    cmd += list(extra)
    cmd += ["-o", exe + ".tmp%d" % os.getpid()]
    rc, out = _run(cmd)
    if rc:
        raise RuntimeError("harness build failed:\n" + " ".join(cmd) + "\n" + out[-6000:])
    os.rename(exe + ".tmp%d" % os.getpid(), exe)
    return exe


def compile_repo_file(rel, flags, tag):
    """Compile one source file of /repo's working tree on its own (files the x86 build does not use, e.g. the portable
    self-test protocol); returns the object path (cached by content)."""
    os.makedirs(CACHE, exist_ok=True)
    src = os.path.join(REPO, rel)
    h = hashlib.sha256()
    h.update((tag + "|" + " ".join(flags)).encode())
    h.update(open(src, "rb").read())
    for inc in sorted(glob.glob(os.path.join(REPO, "include", "*.h")) + glob.glob(os.path.join(os.path.dirname(src), "*.h"))):
        h.update(open(inc, "rb").read())
    obj = os.path.join(CACHE, "obj-%s-%s.o" % (tag, h.hexdigest()[:16]))
    if os.path.exists(obj):
        os.utime(obj, None)
        return obj
    cmd = ["gcc", "-O2", "-g", "-c", "-I" + os.path.join(REPO, "include"), "-I" + os.path.dirname(src)] + list(flags) + [src, "-o", obj + ".tmp%d" % os.getpid()]
    rc, out = _run(cmd)
    if rc:
        raise RuntimeError("compile failed:\n" + " ".join(cmd) + "\n" + out[-4000:])
    os.rename(obj + ".tmp%d" % os.getpid(), obj)
    return obj


if __name__ == "__main__":
    v = sys.argv[1] if len(sys.argv) > 1 else "def"
    t = time.time()
    print(build_lib(v), "%.1fs" % (time.time() - t))
