------------------------------ MODULE BindRace ------------------------------
(***************************************************************************)
(* First-call binding of a multibinary entry point under concurrency        *)
(* (C18: no hidden shared state other than the idempotent binding; C12:     *)
(* racing first calls bind the same, correct target).                       *)
(*                                                                          *)
(* Every exported entry is `jmp [slot]`; the slot initially points at the   *)
(* resolver, which computes the target from CPUID alone (a pure function of *)
(* the machine, so every thread computes the same value) and publishes it   *)
(* into the slot.  The only thing the design relies on is that the slot     *)
(* goes from "resolver" to "target" in ONE store.  StoreSteps = 2 models a   *)
(* resolver that publishes in two halves (e.g. two 32-bit stores, or a      *)
(* "clear then set"): TLC then finds a thread that jumps through a torn     *)
(* pointer.  The code is bound to StoreSteps = 1 by TraceDispatch, which     *)
(* checks under single-stepping that the slot never holds a third value     *)
(* (`binding-published-in-more-than-one-step`).                              *)
(***************************************************************************)
EXTENDS Naturals, FiniteSets
CONSTANTS Thread, StoreSteps
VARIABLES slot,        \* "resolver" | "torn" | "target"
          pc,          \* per thread: "idle" | "loaded" (has read the slot) | "resolving" | "storing" | "in_target" | "crashed" | "done"
          seen,        \* per thread: the slot value it read
          half         \* per thread: halves already stored
vars == << slot, pc, seen, half >>

Init == slot = "resolver" /\ pc = [t \in Thread |-> "idle"] /\ seen = [t \in Thread |-> "none"] /\ half = [t \in Thread |-> 0]

\* the entry stub: one load of the slot, then an indirect jump
Load(t) == /\ pc[t] = "idle"
           /\ seen' = [seen EXCEPT ![t] = slot] /\ pc' = [pc EXCEPT ![t] = "loaded"] /\ UNCHANGED << slot, half >>
Jump(t) == /\ pc[t] = "loaded"
           /\ pc' = [pc EXCEPT ![t] = CASE seen[t] = "resolver" -> "resolving" [] seen[t] = "target" -> "in_target" [] OTHER -> "crashed"]
           /\ UNCHANGED << slot, seen, half >>
\* the resolver: CPUID (pure), then publish
Resolve(t) == /\ pc[t] = "resolving" /\ pc' = [pc EXCEPT ![t] = "storing"] /\ UNCHANGED << slot, seen, half >>
Store(t) == /\ pc[t] = "storing"
            /\ half' = [half EXCEPT ![t] = @ + 1]
            /\ slot' = IF half[t] + 1 = StoreSteps THEN "target" ELSE (IF slot = "target" /\ StoreSteps = 1 THEN "target" ELSE "torn")
            /\ pc' = [pc EXCEPT ![t] = IF half[t] + 1 = StoreSteps THEN "in_target" ELSE "storing"]
            /\ UNCHANGED seen
Return(t) == /\ pc[t] = "in_target" /\ pc' = [pc EXCEPT ![t] = "done"] /\ UNCHANGED << slot, seen, half >>
Next == \E t \in Thread : Load(t) \/ Jump(t) \/ Resolve(t) \/ Store(t) \/ Return(t)
Spec == Init /\ [][Next]_vars /\ WF_vars(Next)

NoTornJump == \A t \in Thread : pc[t] # "crashed"
SlotMonotone == [][slot = "target" => slot' = "target"]_vars      \* once bound, bound for good (needs one-store publication)
AllReturn == <>(\A t \in Thread : pc[t] \in {"done", "crashed"})
BoundAtEnd == (\A t \in Thread : pc[t] = "done") => slot = "target"
=============================================================================
