------------------------------ MODULE Dispatch ------------------------------
(***************************************************************************)
(* VERDICT specification of run-time dispatch (C12).                       *)
(*                                                                         *)
(* A configuration cfg is the set of feature names the resolvers can       *)
(* observe: CPUID leaf 1/7 bits (sse4_1 sse4_2 osxsave avx aesni clmul     *)
(* avx2 avx512f avx512dq avx512cd avx512bw avx512vl sha avx512_vbmi2 gfni  *)
(* vaes vpclmulqdq avx512_vnni avx512_bitalg avx512_vpopcntdq avoton) and  *)
(* XCR0 state bits (x_sse x_avx x_opmask x_zmm_hi256 x_hi16_zmm).          *)
(* A binding maps an entry point to a target of some implementation        *)
(* family.  The property: every binding's family requires only what the    *)
(* configuration makes executable; entry points sharing an object bind to  *)
(* one family; a binding does not change.                                  *)
(***************************************************************************)
EXTENDS Naturals, FiniteSets, Sequences

G1 == {"avx512f", "avx512vl", "avx512bw", "avx512cd", "avx512dq"}
G2 == {"avx512_vbmi2", "gfni", "vaes", "vpclmulqdq", "avx512_vnni", "avx512_bitalg", "avx512_vpopcntdq"}
CpuBits == {"sse4_1", "sse4_2", "osxsave", "avx", "aesni", "clmul", "avx2", "sha", "avoton", "avx512_vbmi"} \cup G1 \cup G2
OsBits == {"x_sse", "x_avx", "x_opmask", "x_zmm_hi256", "x_hi16_zmm"}
ZmmState == {"x_opmask", "x_zmm_hi256", "x_hi16_zmm"}

\* architectural consistency of a configuration (the quantifier of the property)
Consistent(cfg) ==
  /\ cfg \subseteq CpuBits \cup OsBits
  /\ ("sse4_2" \in cfg => "sse4_1" \in cfg)
  /\ ("avx" \in cfg => "sse4_2" \in cfg)
  /\ ("avx2" \in cfg => "avx" \in cfg)
  /\ ("avx512f" \in cfg => "avx2" \in cfg)
  /\ (\A b \in (G1 \cup {"avx512_vbmi2", "avx512_vnni", "avx512_bitalg", "avx512_vpopcntdq", "avx512_vbmi"}) : b \in cfg => "avx512f" \in cfg)
  /\ ((cfg \cap OsBits) # {} => "osxsave" \in cfg)
  /\ ("x_avx" \in cfg => ("x_sse" \in cfg /\ "avx" \in cfg))
  /\ ((cfg \cap ZmmState) # {} => (ZmmState \subseteq cfg /\ "x_avx" \in cfg /\ "avx512f" \in cfg))
  /\ ("avoton" \in cfg => "avx" \notin cfg)

\* instruction-set extensions executable under cfg (CPU bit and, where state is needed, OS enablement)
AvxUsable(cfg) == {"avx", "osxsave", "x_sse", "x_avx"} \subseteq cfg
ZmmUsable(cfg) == AvxUsable(cfg) /\ ZmmState \subseteq cfg /\ "avx512f" \in cfg
Avail(cfg) ==
     (cfg \cap {"sse4_1", "sse4_2", "sha", "aesni", "clmul"})
  \cup (IF AvxUsable(cfg) THEN {"avx"} \cup (cfg \cap {"avx2"}) ELSE {})
  \cup (IF ZmmUsable(cfg) THEN cfg \cap (G1 \cup G2 \cup {"avx512_vbmi"}) ELSE {})

\* extension bits no resolver tests: outside the property's quantifier, taken as present
Untested == {"aesni", "clmul", "ssse3", "sse3", "sse2", "popcnt", "bmi2", "bmi", "lzcnt", "movbe", "cmov", "adx"}

AVX512 == {"avx", "avx2"} \cup G1
\* what each implementation family is declared to need (headers' @requires, FIPS.md, file names)
FamilyRequires(fam) ==
  CASE fam = "base" -> {}
    [] fam \in {"sse", "x4", "00", "sb_sse4"} -> {"sse4_1"}
    [] fam = "sse_ni" -> {"sse4_1", "sha"}
    [] fam \in {"avx", "avx_gen2", "x8"} -> {"avx"}          \* cbc_enc_*_x8 is the VEX-encoded eight-buffer variant
    [] fam \in {"avx2", "avx_gen4", "04"} -> {"avx", "avx2"}
    [] fam = "avx512" -> AVX512
    [] fam = "avx512_ni" -> AVX512 \cup {"sha"}
    [] fam \in {"vaes_avx512", "vaes"} -> AVX512 \cup G2      \* "AVX512 update": the resolver demands all of group 2
KnownFamilies == {"base", "sse", "x4", "x8", "00", "sb_sse4", "sse_ni", "avx", "avx_gen2", "avx2", "avx_gen4", "04", "avx512",
                  "avx512_ni", "vaes_avx512", "vaes"}

\* units without a plain-C fall-back document SSE4.1 (+AES-NI) as their minimum: not the resolver's to test
Baseline(unit) == IF unit = "aes" THEN {"sse4_1"} ELSE {}

BindingOk(cfg, unit, fam) ==
  fam \in KnownFamilies /\ FamilyRequires(fam) \subseteq (Avail(cfg) \cup Untested \cup Baseline(unit))

\* entry points that operate on one shared object
Groups == {
    {"_sha1_ctx_mgr_init", "_sha1_ctx_mgr_submit", "_sha1_ctx_mgr_flush"},
    {"_sha256_ctx_mgr_init", "_sha256_ctx_mgr_submit", "_sha256_ctx_mgr_flush"},
    {"_sha512_ctx_mgr_init", "_sha512_ctx_mgr_submit", "_sha512_ctx_mgr_flush"},
    {"_md5_ctx_mgr_init", "_md5_ctx_mgr_submit", "_md5_ctx_mgr_flush"},
    {"_sm3_ctx_mgr_init", "_sm3_ctx_mgr_submit", "_sm3_ctx_mgr_flush"},
    {"_aes_gcm_precomp_128", "_aes_gcm_init_128", "_aes_gcm_enc_128", "_aes_gcm_enc_128_update", "_aes_gcm_enc_128_finalize", "_aes_gcm_enc_128_nt", "_aes_gcm_enc_128_update_nt", "_aes_gcm_dec_128", "_aes_gcm_dec_128_update", "_aes_gcm_dec_128_finalize", "_aes_gcm_dec_128_nt", "_aes_gcm_dec_128_update_nt"},
    {"_aes_gcm_precomp_256", "_aes_gcm_init_256", "_aes_gcm_enc_256", "_aes_gcm_enc_256_update", "_aes_gcm_enc_256_finalize", "_aes_gcm_enc_256_nt", "_aes_gcm_enc_256_update_nt", "_aes_gcm_dec_256", "_aes_gcm_dec_256_update", "_aes_gcm_dec_256_finalize", "_aes_gcm_dec_256_nt", "_aes_gcm_dec_256_update_nt"},
    {"_mh_sha1_update", "_mh_sha1_finalize"},
    {"_mh_sha256_update", "_mh_sha256_finalize"},
    {"_mh_sha1_murmur3_x64_128_update", "_mh_sha1_murmur3_x64_128_finalize"} }
\* b: set of << entry, target, family, unit >>
GroupOk(b, g) == Cardinality({x[3] : x \in {y \in b : y[1] \in g}}) <= 1
=============================================================================
