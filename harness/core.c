#define _GNU_SOURCE
#include "core.h"
#include <stdlib.h>
#include <string.h>
#include <stdarg.h>
#include <signal.h>
#include <setjmp.h>
#include <unistd.h>
#include <sys/mman.h>
#include <errno.h>

void
die(const char *fmt, ...)
{
        va_list ap;
        va_start(ap, fmt);
        fprintf(stderr, "drv: ");
        vfprintf(stderr, fmt, ap);
        fprintf(stderr, "\n");
        va_end(ap);
        if (ev_fp)
                fflush(ev_fp);
        exit(3);
}

/* ------------------------------------------------------------------ pattern */
void
pat_fill(uint8_t *dst, uint32_t b, uint64_t off, uint64_t len)
{
        uint64_t i = 0;
        if (b == 0 || b == 1) {
                memset(dst, b ? 0xff : 0, len);
                return;
        }
        while (i < len && ((off + i) & 7))
                dst[i] = pat_byte(b, off + i), i++;
        for (; i + 8 <= len; i += 8) {
                uint64_t v = splitmix64(((uint64_t) b << 32) | (((off + i) & (PAT_PERIOD - 1)) >> 3));
                memcpy(dst + i, &v, 8);
        }
        for (; i < len; i++)
                dst[i] = pat_byte(b, off + i);
}

uint64_t
mem_sum(const void *p, size_t n)
{
        const uint8_t *b = p;
        uint64_t h = 0xcbf29ce484222325ull, w;
        size_t i = 0;
        for (; i + 8 <= n; i += 8) {
                memcpy(&w, b + i, 8);
                h = (h ^ w) * 0x100000001b3ull;
                h ^= h >> 29;
        }
        for (; i < n; i++)
                h = (h ^ b[i]) * 0x100000001b3ull;
        return h;
}

/* ------------------------------------------------------------------ guarded buffers */
#define PG 4096ul
static uint8_t
canary_byte(uint32_t seed, size_t i)
{
        return (uint8_t) (splitmix64(0xC0FFEE00000000ull ^ ((uint64_t) seed << 20) ^ (i >> 3)) >> (8 * (i & 7))) | 1;
}

int
gbuf_parse_place(const char *s, int *place, unsigned *align)
{
        *align = 0;
        if (s[0] == 'e')
                *place = PL_END;
        else if (s[0] == 's')
                *place = PL_START;
        else if (s[0] == 'g')
                *place = PL_4G;
        else if (s[0] == 'a') {
                *place = PL_MID;
                *align = (unsigned) atoi(s + 1);
        } else
                return -1;
        return 0;
}

static uint32_t gb_counter = 1;
int
gbuf_alloc(gbuf *g, size_t len, int place, unsigned align)
{
        size_t body = ((len + 2 * PG - 1) / PG + 1) * PG; /* room for slack on either side */
        memset(g, 0, sizeof(*g));
        g->maplen = body + 2 * PG;
        uint8_t *want = NULL; /* PL_4G / PL_AT4G: the address the buffer must have */
        if (place == PL_4G || place == PL_AT4G) {
                /* a buffer that straddles (PL_4G) or starts at (PL_AT4G) a multiple of 4 GiB: address arithmetic done in 32
                 * bits, or a pointer tested through its low half, is exact everywhere else */
                for (int attempt = 0; attempt < 32 && !want; attempt++) {
                        uint64_t B = (uint64_t) (0x20 + ((__atomic_fetch_add(&gb_counter, 1, __ATOMIC_RELAXED) * 7) & 0x3ff)) << 32;
                        uint64_t pp = place == PL_AT4G ? B : B - ((len / 2 + 63) & ~(uint64_t) 63);
                        uint64_t mp = ((pp - 1024) & ~(uint64_t) (PG - 1)) - PG;
                        void *m = mmap((void *) mp, g->maplen, PROT_READ | PROT_WRITE, MAP_PRIVATE | MAP_ANONYMOUS | MAP_FIXED_NOREPLACE, -1, 0);
                        if (m == MAP_FAILED)
                                continue;
                        if ((uint64_t) m != mp) {
                                munmap(m, g->maplen);
                                continue;
                        }
                        g->map = m;
                        want = (uint8_t *) pp;
                }
                if (!want)
                        place = PL_MID;
        }
        if (!want)
                g->map = mmap(NULL, g->maplen, PROT_READ | PROT_WRITE, MAP_PRIVATE | MAP_ANONYMOUS, -1, 0);
        if (g->map == MAP_FAILED)
                die("mmap %zu: %s", g->maplen, strerror(errno));
        mprotect(g->map, PG, PROT_NONE);
        mprotect(g->map + PG + body, PG, PROT_NONE);
        uint8_t *lo = g->map + PG, *hi = lo + body;
        g->len = len;
        g->place = place;
        g->canary = __atomic_fetch_add(&gb_counter, 1, __ATOMIC_RELAXED);
        if (want)
                g->p = want;
        else if (place == PL_END)
                g->p = hi - len;
        else if (place == PL_START)
                g->p = lo;
        else
                g->p = lo + 1024 + (align % 1024); /* lo is page aligned -> p % 64 == align % 64 */
        for (uint8_t *q = lo; q < g->p; q++)
                *q = canary_byte(g->canary, (size_t) (q - lo));
        for (uint8_t *q = g->p + len; q < hi; q++)
                *q = canary_byte(g->canary, (size_t) (q - lo));
        return 0;
}

/* Library objects (managers, contexts, key data, states) are placed at a hidden-seed dependent multiple of their type's
 * declared alignment: the API may rely on alignof(type) and on nothing more, and results must not depend on the rest. */
static __thread uint64_t obj_counter;
unsigned
obj_misalign(unsigned al)
{
        if (al == 0)
                al = 1;
        if (al >= 64)
                return 0;
        uint64_t r = splitmix64(((uint64_t) (uint32_t) vc_hidden_seed << 24) ^ 0x0B1EC7 ^ (++obj_counter * 0x9E3779B97F4A7C15ull));
        return (unsigned) ((r % (64 / al)) * al);
}

/* hidden-seed dependent coin: does the caller re-initialise an object in place (live storage) or use fresh storage? */
int
obj_reuse(void)
{
        return (int) (splitmix64(((uint64_t) (uint32_t) vc_hidden_seed << 24) ^ 0x2E05E ^ (++obj_counter * 0x9E3779B97F4A7C15ull)) & 1);
}

int
gbuf_alloc_obj(gbuf *g, size_t len, unsigned al)
{
        unsigned off = obj_misalign(al);
        /* one object in eight sits exactly at a multiple of 4 GiB (the low half of its address is zero) */
        if ((splitmix64(((uint64_t) (uint32_t) vc_hidden_seed << 24) ^ 0x4617 ^ (obj_counter * 0x9E3779B97F4A7C15ull)) & 7) == 0)
                return gbuf_alloc(g, len, PL_AT4G, 0);
        return gbuf_alloc(g, len, PL_MID, off);
}

/* The caller moves a live object (struct copy, realloc): same bytes at a new address with another legal alignment; the old
 * storage is unmapped, so any pointer into it that the library kept faults. */
void
gbuf_move_obj(gbuf *g, unsigned al)
{
        gbuf n;
        gbuf_alloc_obj(&n, g->len, al);
        memcpy(n.p, g->p, g->len);
        gbuf_free(g);
        *g = n;
}

void
gbuf_free(gbuf *g)
{
        if (g->map)
                munmap(g->map, g->maplen);
        memset(g, 0, sizeof(*g));
}

void
gbuf_seal(gbuf *g)
{
        g->sum = mem_sum(g->p, g->len);
}

int
gbuf_intact(const gbuf *g)
{
        return g->sum == mem_sum(g->p, g->len);
}

int
gbuf_canary_ok(const gbuf *g)
{
        if (!g->map)
                return 1;
        size_t body = g->maplen - 2 * PG;
        const uint8_t *lo = g->map + PG, *hi = lo + body;
        for (const uint8_t *q = lo; q < g->p; q++)
                if (*q != canary_byte(g->canary, (size_t) (q - lo)))
                        return 0;
        for (const uint8_t *q = g->p + g->len; q < hi; q++)
                if (*q != canary_byte(g->canary, (size_t) (q - lo)))
                        return 0;
        return 1;
}

#include <sys/mman.h>
/* a 4 GiB + window of virtual memory that repeats one 1 MiB pattern file (C15) */
static __thread uint8_t *huge_base;
static __thread uint32_t huge_pat;
uint8_t *
huge_window(uint32_t b)
{
        const size_t W = (size_t) 4 << 30, EXTRA = 2 * PAT_PERIOD;
        if (huge_base && huge_pat == b)
                return huge_base;
        if (huge_base)
                munmap(huge_base, W + EXTRA);
        int fd = memfd_create("pat", 0);
        if (fd < 0)
                die("memfd_create");
        uint8_t *tmp = malloc(PAT_PERIOD);
        pat_fill(tmp, b, 0, PAT_PERIOD);
        if (write(fd, tmp, PAT_PERIOD) != PAT_PERIOD)
                die("memfd write");
        free(tmp);
        huge_base = mmap(NULL, W + EXTRA, PROT_NONE, MAP_PRIVATE | MAP_ANONYMOUS | MAP_NORESERVE, -1, 0);
        if (huge_base == MAP_FAILED)
                die("huge reserve");
        for (size_t o = 0; o < W + EXTRA; o += PAT_PERIOD)
                if (mmap(huge_base + o, PAT_PERIOD, PROT_READ, MAP_SHARED | MAP_FIXED, fd, 0) == MAP_FAILED)
                        die("huge map");
        close(fd);
        huge_pat = b;
        return huge_base;
}


/* ------------------------------------------------------------------ hidden inputs */
int vc_hidden_seed = 1;
int vc_step = 0;                        /* single-step the callee (stepmode command) */
int vc_dump_secrets = 0;

void
hidden_fill(void *p, size_t n, uint32_t salt)
{
        uint8_t *b = p;
        uint64_t s = ((uint64_t) (uint32_t) vc_hidden_seed << 32) ^ salt ^ 0x5bd1e995;
        for (size_t i = 0; i < n; i++)
                b[i] = (uint8_t) (splitmix64(s + (i >> 3)) >> (8 * (i & 7)));
}

/* ------------------------------------------------------------------ statics */
extern uint8_t __start_isal_data[] __attribute__((weak)), __stop_isal_data[] __attribute__((weak));

/* The FIPS self-test status word is a local label of asm_self_tests.asm.  It is located differentially: the library's own
 * setter is called with failed / passed / failed and the one aligned word of the library's data section that reads 1, 0, 1
 * is the status word (works whatever else the setter does with its argument).  The word is then driven by direct stores. */
volatile int *
find_self_test_word(void (*setter)(int))
{
        size_t n = (size_t) (__stop_isal_data - __start_isal_data) / 4;
        volatile int *w = (volatile int *) __start_isal_data, *found = NULL;
        uint8_t *cand = calloc(n ? n : 1, 1);
        int seq[3] = { 1, 0, 1 };
        for (size_t i = 0; i < n; i++)
                cand[i] = 1;
        for (int k = 0; k < 3; k++) {
                setter(seq[k]);
                for (size_t i = 0; i < n; i++)
                        if (w[i] != seq[k])
                                cand[i] = 0;
        }
        int cnt = 0;
        for (size_t i = 0; i < n; i++)
                if (cand[i]) {
                        found = &w[i];
                        cnt++;
                }
        free(cand);
        if (cnt != 1)
                return NULL;
        *found = 2; /* SELF_TEST_NOT_DONE */
        return found;
}
extern uint8_t __start_isal_bss[] __attribute__((weak)), __stop_isal_bss[] __attribute__((weak));
static uint8_t *st_copy_data, *st_copy_bss;
void
statics_snapshot(void)
{
        size_t nd = (size_t) (__stop_isal_data - __start_isal_data), nb = (size_t) (__stop_isal_bss - __start_isal_bss);
        if (!st_copy_data) {
                st_copy_data = malloc(nd + 1);
                st_copy_bss = malloc(nb + 1);
        }
        memcpy(st_copy_data, __start_isal_data, nd);
        memcpy(st_copy_bss, __start_isal_bss, nb);
}

/* bytes changed in the writable statics that are NOT part of an 8-byte word now holding the address of a library
 * function (= something other than a dispatch binding was written) */
int
statics_nonbinding(void)
{
        size_t nd = (size_t) (__stop_isal_data - __start_isal_data), nb = (size_t) (__stop_isal_bss - __start_isal_bss);
        int n = 0;
        if (!st_copy_data)
                return 0;
        for (size_t i = 0; i < nd; i++)
                if (st_copy_data[i] != __start_isal_data[i]) {
                        /* part of some 8-byte window (slots need not be 8-aligned) that now holds a function address? */
                        int binding = 0;
                        for (size_t w = (i >= 7 ? i - 7 : 0); w <= i && w + 8 <= nd && !binding; w++) {
                                void *val;
                                memcpy(&val, __start_isal_data + w, 8);
                                if (sym_name(val))
                                        binding = 1;
                        }
                        if (!binding)
                                n++;
                }
        for (size_t i = 0; i < nb; i++)
                if (st_copy_bss[i] != __start_isal_bss[i])
                        n++;
        return n;
}

int
statics_diff(char *sym, size_t cap)
{
        size_t nd = (size_t) (__stop_isal_data - __start_isal_data), nb = (size_t) (__stop_isal_bss - __start_isal_bss);
        int n = 0;
        if (!st_copy_data)
                return 0;
        if (sym && cap)
                sym[0] = 0;
        if (memcmp(st_copy_data, __start_isal_data, nd)) {
                for (size_t i = 0; i < nd; i++)
                        if (st_copy_data[i] != __start_isal_data[i]) {
                                if (!n && sym)
                                        snprintf(sym, cap, "isal_data+%zu", i);
                                n++;
                        }
        }
        if (memcmp(st_copy_bss, __start_isal_bss, nb)) {
                for (size_t i = 0; i < nb; i++)
                        if (st_copy_bss[i] != __start_isal_bss[i]) {
                                if (!n && sym)
                                        snprintf(sym, cap, "isal_bss+%zu", i);
                                n++;
                        }
        }
        return n;
}

/* ------------------------------------------------------------------ trampoline */
extern void vcall_asm(struct vcall_in *in);
__thread struct vregs vc_regs;
__thread uint64_t vc_saved_rsp;
__thread void *vc_fn;

#define STK_TOTAL (192 * 1024)
#define STK_DEAD (64 * 1024)
#define STK_ABOVE 512
static __thread uint8_t *stk_map;   /* PROT_NONE page + STK_TOTAL + STK_ABOVE (+pad) */
static __thread uint8_t *stk_top;   /* rsp at the call instruction when there are no stack args */
static __thread uint8_t *sig_stack;
static __thread sigjmp_buf vc_jmp;
static __thread volatile int vc_armed;
static __thread volatile uint64_t vc_fault_addr;
static __thread uint64_t dead_seed;
static __thread uint8_t *dead_lo, *dead_hi;

static void
on_fault(int sig, siginfo_t *si, void *uc)
{
        (void) uc;
        if (vc_armed) {
                vc_fault_addr = (uint64_t) si->si_addr;
                vc_armed = 0;
                siglongjmp(vc_jmp, sig);
        }
        {
                char msg[128];
                int n = snprintf(msg, sizeof msg, "drv: unexpected signal %d at %p outside a library call\n", sig,
                                 si->si_addr);
                if (write(2, msg, (size_t) n) < 0) {
                }
        }
        if (ev_fp)
                fflush(ev_fp);
        _exit(4);
}

void
vc_thread_init(void)
{
        if (stk_map)
                return;
        size_t tot = PG + STK_TOTAL + PG;
        stk_map = mmap(NULL, tot, PROT_READ | PROT_WRITE, MAP_PRIVATE | MAP_ANONYMOUS, -1, 0);
        if (stk_map == MAP_FAILED)
                die("mmap stack");
        mprotect(stk_map, PG, PROT_NONE);
        stk_top = stk_map + PG + STK_TOTAL - STK_ABOVE - 128; /* 16-aligned */
        sig_stack = mmap(NULL, 64 * 1024, PROT_READ | PROT_WRITE, MAP_PRIVATE | MAP_ANONYMOUS, -1, 0);
        stack_t ss = { .ss_sp = sig_stack, .ss_size = 64 * 1024, .ss_flags = 0 };
        sigaltstack(&ss, NULL);
        struct sigaction sa;
        memset(&sa, 0, sizeof sa);
        sa.sa_sigaction = on_fault;
        sa.sa_flags = SA_SIGINFO | SA_ONSTACK | SA_NODEFER;
        sigaction(SIGSEGV, &sa, NULL);
        sigaction(SIGBUS, &sa, NULL);
        sigaction(SIGILL, &sa, NULL);
        sigaction(SIGFPE, &sa, NULL);
        sigaction(SIGABRT, &sa, NULL); /* a live assert() inside the library (lib_debug / autotools builds): fault 6, not a dead driver */
}

#define MAXREG 200
static __thread struct {
        const char *name;
        gbuf *g;
        const void *raw;
        size_t rawn;
        uint64_t rawsum;
        int is_input;
} regs_[MAXREG];
static __thread int nreg;

void
vc_begin(void)
{
        nreg = 0;
}
void
vc_input(const char *name, gbuf *g)
{
        if (nreg >= MAXREG)
                die("too many registered buffers");
        gbuf_seal(g);
        regs_[nreg].name = name;
        regs_[nreg].g = g;
        regs_[nreg].raw = NULL;
        regs_[nreg].is_input = 1;
        nreg++;
}
void
vc_output(const char *name, gbuf *g)
{
        if (nreg >= MAXREG)
                die("too many registered buffers");
        regs_[nreg].name = name;
        regs_[nreg].g = g;
        regs_[nreg].raw = NULL;
        regs_[nreg].is_input = 0;
        nreg++;
}
void
vc_input_raw(const char *name, const void *p, size_t n)
{
        if (nreg >= MAXREG)
                die("too many registered buffers");
        regs_[nreg].name = name;
        regs_[nreg].g = NULL;
        regs_[nreg].raw = p;
        regs_[nreg].rawn = n;
        regs_[nreg].rawsum = mem_sum(p, n);
        regs_[nreg].is_input = 1;
        nreg++;
}

static inline uint64_t
dead_word(uint64_t seed, size_t idx)
{
        return splitmix64(seed + idx) | 0x0101010101010101ull;
}

uint64_t
vcall(void *fn, int nargs, const uint64_t *args, obs *o)
{
        {
                const char *nm = sym_name(fn);
                if (nm)
                        note_called(nm);
        }
        struct vcall_in in;
        static __thread uint8_t *zg;
        static __thread uint64_t callno;
        vc_thread_init();
        memset(o, 0, sizeof *o);
        memset(&in, 0, sizeof in);
        if (nargs > 12)
                die("vcall: too many args");
        in.fn = fn;
        in.nargs = (uint64_t) nargs;
        for (int i = 0; i < nargs; i++)
                in.args[i] = args[i];
        uint64_t hs = ((uint64_t) (uint32_t) vc_hidden_seed << 32) ^ (callno++ * 0x9E37);
        /* unused argument registers get garbage too */
        for (int i = nargs; i < 6; i++)
                in.args[i] = splitmix64(hs + 100 + (uint64_t) i);
        for (int i = 0; i < 6; i++)
                in.cs[i] = splitmix64(hs + 200 + (uint64_t) i) | 0x8000000000000001ull;
        for (int i = 0; i < 4; i++)
                in.garb[i] = splitmix64(hs + 300 + (uint64_t) i);
        /* single-step mode: the trap flag is part of the flags image loaded right before the call; the (empty) SIGTRAP handler
         * runs on the interrupted stack after every instruction of the callee, i.e. a signal frame is built below the red zone
         * at every instruction boundary */
        in.garb[3] = (in.garb[3] & ~0x100ull) | (vc_step ? 0x100ull : 0);
        for (int i = 0; i < 8; i++)
                in.k_in[i] = splitmix64(hs + 400 + (uint64_t) i);
        if (!zg)
                zg = aligned_alloc(64, 32 * 64);
        for (size_t i = 0; i < 32 * 64 / 8; i++) {
                uint64_t v = splitmix64(hs + 500 + i);
                memcpy(zg + 8 * i, &v, 8);
        }
        in.zmm_in = zg;
        int nstk = nargs > 6 ? nargs - 6 : 0;
        /* the ABI fixes rsp only modulo 16 at a call: rotate it over the four residues modulo 64 (a callee that aligns its
         * frame by hand, or that uses 32/64-byte aligned accesses relative to rsp, must work in all of them) */
        uint8_t *sp = stk_top - 16 * (size_t) (splitmix64(hs + 9) & 3) - (((size_t) nstk * 8 + 15) & ~(size_t) 15);
        in.sp = (uint64_t) sp;
        /* canaries above the frame (above the stack-argument area) */
        uint8_t *above = sp + (((size_t) nstk * 8 + 15) & ~(size_t) 15);
        size_t above_n = (size_t) ((stk_map + PG + STK_TOTAL) - above);
        for (size_t i = 0; i < above_n; i++)
                above[i] = canary_byte(0xABCD, i);
        /* dead stack prefill: [sp - 8 - STK_DEAD, sp - 8) ; return address slot at sp-8 */
        dead_hi = sp - 8;
        dead_lo = dead_hi - STK_DEAD;
        dead_seed = splitmix64(hs + 7);
        {
                uint64_t *w = (uint64_t *) dead_lo;
                size_t n = STK_DEAD / 8;
                for (size_t i = 0; i < n; i++)
                        w[i] = dead_word(dead_seed, i);
        }
        if (!vc_parallel)
                statics_snapshot();
        /* the caller's floating-point environment is part of the state a callee must preserve: run the call under a
         * hidden-seed dependent, non-default rounding mode / precision / flush-to-zero setting (exceptions stay masked) and
         * restore the driver's own afterwards */
        uint32_t mx_drv, mx0;
        uint16_t cw_drv, cw0;
        __asm__ volatile("stmxcsr %0" : "=m"(mx_drv));
        __asm__ volatile("fnstcw %0" : "=m"(cw_drv));
        {
                uint64_t r = splitmix64(hs + 11);
                mx0 = 0x1F80u | (uint32_t) ((r & 3) << 13) | ((r >> 2) & 1 ? 0x8000u : 0) | ((r >> 3) & 1 ? 0x0040u : 0);
                cw0 = (uint16_t) (0x003F | (((r >> 4) & 3) == 1 ? 0x0200 : (((r >> 4) & 3) << 8)) | (((r >> 6) & 3) << 10) | 0x0040);
                __asm__ volatile("ldmxcsr %0" : : "m"(mx0));
                __asm__ volatile("fldcw %0" : : "m"(cw0));
        }

        int sig = sigsetjmp(vc_jmp, 1);
        if (sig == 0) {
                vc_armed = 1;
                vcall_asm(&in);
                vc_armed = 0;
        } else {
                o->fault = sig;
                o->fault_addr = vc_fault_addr;
                __asm__ volatile("cld; vzeroupper");
                snprintf(o->fault_where, sizeof o->fault_where, "unmapped");
                for (int i = 0; i < nreg; i++) {
                        const uint8_t *lo, *hi;
                        if (regs_[i].g) {
                                lo = regs_[i].g->map;
                                hi = lo + regs_[i].g->maplen;
                                if ((const uint8_t *) vc_fault_addr >= lo && (const uint8_t *) vc_fault_addr < hi) {
                                        snprintf(o->fault_where, sizeof o->fault_where, "%s%+ld", regs_[i].name,
                                                 (long) ((const uint8_t *) vc_fault_addr - regs_[i].g->p));
                                        break;
                                }
                        }
                }
        }
        /* ---- observations ---- */
        o->above_ok = 1;
        for (size_t i = 0; i < above_n; i++)
                if (above[i] != canary_byte(0xABCD, i)) {
                        o->above_ok = 0;
                        break;
                }
        o->canary_ok = 1;
        o->inputs_ok = 1;
        for (int i = 0; i < nreg; i++) {
                if (regs_[i].g) {
                        if (!gbuf_canary_ok(regs_[i].g)) {
                                if (o->canary_ok && o->inputs_ok)
                                        snprintf(o->bad_buf, sizeof o->bad_buf, "%s", regs_[i].name);
                                o->canary_ok = 0;
                        }
                        if (regs_[i].is_input && !gbuf_intact(regs_[i].g)) {
                                if (o->canary_ok && o->inputs_ok)
                                        snprintf(o->bad_buf, sizeof o->bad_buf, "%s", regs_[i].name);
                                o->inputs_ok = 0;
                        }
                } else if (regs_[i].is_input && mem_sum(regs_[i].raw, regs_[i].rawn) != regs_[i].rawsum) {
                        if (o->canary_ok && o->inputs_ok)
                                snprintf(o->bad_buf, sizeof o->bad_buf, "%s", regs_[i].name);
                        o->inputs_ok = 0;
                }
        }
        o->static_changed = vc_parallel ? 0 : statics_diff(o->static_sym, sizeof o->static_sym);
        o->static_nonbinding = (vc_parallel || !o->static_changed) ? 0 : statics_nonbinding();
        __asm__ volatile("ldmxcsr %0" : : "m"(mx_drv));
        __asm__ volatile("fldcw %0" : : "m"(cw_drv));
        if (!o->fault) {
                const uint64_t *got = &vc_regs.rbx;
                for (int i = 0; i < 6; i++)
                        if (got[i] != in.cs[i])
                                o->cs_bad |= 1 << i;
                o->rsp_delta = (int64_t) (vc_regs.rsp - in.sp);
                o->df = (int) ((vc_regs.rflags >> 10) & 1);
                o->mxcsr_same = (vc_regs.mxcsr == mx0);
                o->x87_same = (vc_regs.fcw == cw0);
                o->ret = vc_regs.rax;
        } else {
                o->mxcsr_same = o->x87_same = 1;
        }
        {
                const uint64_t *w = (const uint64_t *) dead_lo;
                size_t n = STK_DEAD / 8, first = n;
                for (size_t i = 0; i < n; i++)
                        if (w[i] != dead_word(dead_seed, i)) {
                                first = i;
                                break;
                        }
                o->stack_used = (n - first) * 8;
        }
        return o->ret;
}

void
vc_dead_stack(const uint8_t **lo, const uint8_t **hi)
{
        *lo = dead_lo;
        *hi = dead_hi;
}

/* hex dump of the 16-byte granules of the dead stack that no longer hold the prefill pattern */
int
vc_stack_dirty_runs(char *out, size_t cap)
{
        static const char hx[] = "0123456789abcdef";
        size_t n = STK_DEAD / 16, pos = 0;
        const uint64_t *w = (const uint64_t *) dead_lo;
        int prev = 0;
        for (size_t g = 0; g < n; g++) {
                /* include a granule when it or a neighbour differs, so windows straddling granules survive */
                int d = (w[2 * g] != dead_word(dead_seed, 2 * g)) || (w[2 * g + 1] != dead_word(dead_seed, 2 * g + 1));
                if (!d) {
                        if (prev && pos + 1 < cap)
                                out[pos++] = '|';
                        prev = 0;
                        continue;
                }
                if (pos + 34 >= cap)
                        break;
                const uint8_t *b = (const uint8_t *) &w[2 * g];
                for (int i = 0; i < 16; i++) {
                        out[pos++] = hx[b[i] >> 4];
                        out[pos++] = hx[b[i] & 15];
                }
                prev = 1;
        }
        out[pos] = 0;
        return (int) pos;
}

/* ------------------------------------------------------------------ events */
FILE *ev_fp;
__thread FILE *ev_fp_thread; /* per-thread trace in parallel mode */
int vc_parallel;
long ev_count;
#define EVB_SZ (1 << 20)
static __thread char *evb;
static __thread size_t evn;
static __thread int ev_first;

void
ev_open(const char *path)
{
        ev_fp = fopen(path, "w");
        if (!ev_fp)
                die("cannot open %s", path);
        setvbuf(ev_fp, NULL, _IOFBF, 1 << 20);
}
/* names of the library entry points the drivers resolved (= called through the trampoline) */
static const char *called[2048];
static int ncalled;
void
note_called(const char *name)
{
        for (int i = 0; i < ncalled; i++)
                if (called[i] == name)
                        return;
        if (ncalled < 2048)
                called[ncalled++] = name;
}
void
ev_close(void)
{
        if (ev_fp) {
                fprintf(ev_fp, "{\"e\":\"Mark\",\"id\":\"called\",\"syms\":[");
                for (int i = 0; i < ncalled; i++)
                        fprintf(ev_fp, "%s\"%s\"", i ? "," : "", called[i]);
                fprintf(ev_fp, "]}\n");
                fclose(ev_fp);
        }
        ev_fp = NULL;
}
static void
evp(const char *fmt, ...)
{
        va_list ap;
        va_start(ap, fmt);
        int k = vsnprintf(evb + evn, EVB_SZ - evn, fmt, ap);
        va_end(ap);
        if (k < 0 || (size_t) k >= EVB_SZ - evn)
                die("event too large");
        evn += (size_t) k;
}
void
ev_begin(const char *name)
{
        if (!evb)
                evb = malloc(EVB_SZ);
        evn = 0;
        ev_first = 0;
        evp("{\"e\":\"%s\"", name);
}
void
ev_int(const char *k, long long v)
{
        evp(",\"%s\":%lld", k, v);
}
void
ev_str(const char *k, const char *v)
{
        evp(",\"%s\":\"%s\"", k, v);
}
void
ev_raw(const char *k, const char *json)
{
        evp(",\"%s\":%s", k, json);
}
void
ev_hex(const char *k, const void *p, size_t n)
{
        static const char hx[] = "0123456789abcdef";
        const uint8_t *b = p;
        evp(",\"%s\":\"", k);
        if (evn + 2 * n + 8 >= EVB_SZ)
                die("event too large (hex)");
        for (size_t i = 0; i < n; i++) {
                evb[evn++] = hx[b[i] >> 4];
                evb[evn++] = hx[b[i] & 15];
        }
        evb[evn++] = '"';
        evb[evn] = 0;
}
void
ev_obs(const obs *o)
{
        evp(",\"obs\":{\"fault\":%d,\"fw\":\"%s\",\"cs\":%d,\"rsp\":%lld,\"df\":%d,\"mx\":%d,\"fcw\":%d,\"above\":%d,"
            "\"can\":%d,\"inp\":%d,\"bad\":\"%s\",\"st\":%d,\"stx\":%d,\"stsym\":\"%s\",\"su\":%llu}",
            o->fault, o->fault ? o->fault_where : "", o->cs_bad, (long long) o->rsp_delta, o->df, o->mxcsr_same,
            o->x87_same, o->above_ok, o->canary_ok, o->inputs_ok, o->bad_buf, o->static_changed, o->static_nonbinding,
            o->static_changed ? o->static_sym : "", (unsigned long long) o->stack_used);
        if (vc_dump_secrets && !o->fault) {
                ev_hex("zmm", vc_regs.zmm, sizeof vc_regs.zmm);
                static __thread char *dump;
                if (!dump)
                        dump = malloc(2 * STK_DEAD + 8192);
                vc_stack_dirty_runs(dump, 2 * STK_DEAD + 8192);
                evp(",\"dstk\":\"%s\"", dump);
        }
}
void
ev_end(void)
{
        evp("}\n");
        FILE *f = ev_fp_thread ? ev_fp_thread : ev_fp;
        flockfile(f);
        fwrite(evb, 1, evn, f);
        ev_count++;
        funlockfile(f);
}

/* ------------------------------------------------------------------ commands */
int
cmd_read(FILE *f, cmd *c)
{
        for (;;) {
                if (!fgets(c->line, sizeof c->line, f))
                        return 0;
                c->n = 0;
                char *s = c->line, *tok;
                while ((tok = strsep(&s, " \t\r\n")) != NULL) {
                        if (!*tok)
                                continue;
                        if (c->n < 64)
                                c->t[c->n++] = tok;
                }
                if (c->n && c->t[0][0] != '#')
                        return 1;
        }
}
long long
cmd_i(const cmd *c, int i)
{
        if (i >= c->n)
                die("command %s: missing argument %d", c->t[0], i);
        return strtoll(c->t[i], NULL, 0);
}

void
behaviour_abort(const char *why)
{
        fprintf(stderr, "drv: %s - trace ends here (the fault is in the trace)\n", why);
        if (ev_fp)
                fflush(ev_fp);
        _exit(0);
}
