SPECIFICATION Spec
CONSTANTS
  Ctx = {c1, c2}
  NLanes = 2
  B = 4
  P = 1
  SegLens = {0, 1, 3, 4, 5}
  MaxTotal = 9
  NoCtx = NoCtx
  TrackStream = FALSE
CONSTRAINT Bounded
INVARIANTS TotalIsSum PartialLenOk CompleteIsWhole

CHECK_DEADLOCK FALSE
