SPECIFICATION FairSpec
CONSTANTS
  Threads = {t1, t2, t3}
  Calls = 2
  AesOutcomes = {TRUE, FALSE}
  ShaOutcomes = {TRUE, FALSE}
INVARIANTS ExactlyOnce NoEarlyPass SameVerdict
PROPERTIES WriteOnce AllReturn
CHECK_DEADLOCK FALSE
