------------------------------ MODULE SelfTest ------------------------------
(***************************************************************************)
(* The FIPS self-test once-only protocol (C17), one action per access to   *)
(* the shared status word, as implemented by fips/asm_self_tests.asm and   *)
(* fips/self_tests.c:                                                      *)
(*                                                                         *)
(*   asm_check_self_tests_status:                                          *)
(*     Load       eax := status; bit 1 clear (0 = passed, 1 = failed)      *)
(*                -> return eax                                            *)
(*     CAS        lock cmpxchg: if status = NOT_DONE then status := RUNNING *)
(*                and the caller is the runner (returns NOT_DONE)          *)
(*     SpinRead   loser: pause; cmp status, RUNNING; loop while equal      *)
(*     FinalLoad  loser: eax := status -> return eax                       *)
(*   isal_self_tests: 0 -> success, 1 -> error, anything else -> run the    *)
(*     tests: RunAes, RunSha, Publish (plain store of the verdict), return  *)
(*                                                                         *)
(* Threads make Calls calls each; the tests' outcome is chosen once        *)
(* (Outcome).  TLC explores every interleaving.                            *)
(***************************************************************************)
EXTENDS Naturals, FiniteSets, Sequences, TLC

CONSTANTS Threads, Calls, Outcomes   \* Outcomes \subseteq {"pass", "fail"}

NOT_DONE == 2
RUNNING == 3
PASSED == 0
FAILED == 1

VARIABLES status,    \* the shared word
          pc,        \* per thread: "idle" "load" "cas" "spin" "final" "decide" "aes" "sha" "publish" "ret"
          eax,       \* per thread: value returned by the status function
          left,      \* per thread: calls still to make
          rets,      \* per thread: sequence of values returned by isal_self_tests (0 = success, 1 = error)
          outcome,   \* what the tests report when they run
          runs,      \* ghost: how many times the tests were started
          finished   \* ghost: the tests have completed at least once
vars == << status, pc, eax, left, rets, outcome, runs, finished >>

Init == /\ status = NOT_DONE
        /\ pc = [t \in Threads |-> "idle"]
        /\ eax = [t \in Threads |-> 0]
        /\ left = [t \in Threads |-> Calls]
        /\ rets = [t \in Threads |-> << >>]
        /\ outcome \in Outcomes
        /\ runs = 0 /\ finished = FALSE

Call(t) == /\ pc[t] = "idle" /\ left[t] > 0
           /\ pc' = [pc EXCEPT ![t] = "load"]
           /\ left' = [left EXCEPT ![t] = @ - 1]
           /\ UNCHANGED << status, eax, rets, outcome, runs, finished >>

Load(t) == /\ pc[t] = "load"
           /\ eax' = [eax EXCEPT ![t] = status]
           /\ pc' = [pc EXCEPT ![t] = IF status \in {PASSED, FAILED} THEN "decide" ELSE "cas"]
           /\ UNCHANGED << status, left, rets, outcome, runs, finished >>

CAS(t) == /\ pc[t] = "cas"
          /\ IF status = NOT_DONE
             THEN /\ status' = RUNNING
                  /\ eax' = [eax EXCEPT ![t] = NOT_DONE]
                  /\ pc' = [pc EXCEPT ![t] = "decide"]
             ELSE /\ status' = status
                  /\ eax' = [eax EXCEPT ![t] = status]
                  /\ pc' = [pc EXCEPT ![t] = "spin"]
          /\ UNCHANGED << left, rets, outcome, runs, finished >>

SpinRead(t) == /\ pc[t] = "spin"
               /\ pc' = [pc EXCEPT ![t] = IF status = RUNNING THEN "spin" ELSE "final"]
               /\ UNCHANGED << status, eax, left, rets, outcome, runs, finished >>

FinalLoad(t) == /\ pc[t] = "final"
                /\ eax' = [eax EXCEPT ![t] = status]
                /\ pc' = [pc EXCEPT ![t] = "decide"]
                /\ UNCHANGED << status, left, rets, outcome, runs, finished >>

\* isal_self_tests: what the C caller does with the value
Decide(t) == /\ pc[t] = "decide"
             /\ IF eax[t] = PASSED THEN /\ rets' = [rets EXCEPT ![t] = Append(@, 0)]
                                        /\ pc' = [pc EXCEPT ![t] = "idle"]
                ELSE IF eax[t] = FAILED THEN /\ rets' = [rets EXCEPT ![t] = Append(@, 1)]
                                             /\ pc' = [pc EXCEPT ![t] = "idle"]
                ELSE /\ rets' = rets
                     /\ pc' = [pc EXCEPT ![t] = "aes"]
             /\ UNCHANGED << status, eax, left, outcome, runs, finished >>

RunAes(t) == /\ pc[t] = "aes"
             /\ runs' = runs + 1
             /\ pc' = [pc EXCEPT ![t] = "sha"]
             /\ UNCHANGED << status, eax, left, rets, outcome, finished >>

RunSha(t) == /\ pc[t] = "sha"
             /\ pc' = [pc EXCEPT ![t] = "publish"]
             /\ UNCHANGED << status, eax, left, rets, outcome, runs, finished >>

Publish(t) == /\ pc[t] = "publish"
              /\ status' = IF outcome = "pass" THEN PASSED ELSE FAILED
              /\ finished' = TRUE
              /\ rets' = [rets EXCEPT ![t] = Append(@, IF outcome = "pass" THEN 0 ELSE 1)]
              /\ pc' = [pc EXCEPT ![t] = "idle"]
              /\ UNCHANGED << eax, left, outcome, runs >>

Step(t) == Call(t) \/ Load(t) \/ CAS(t) \/ SpinRead(t) \/ FinalLoad(t) \/ Decide(t) \/ RunAes(t) \/ RunSha(t) \/ Publish(t)
Next == \E t \in Threads : Step(t)
Spec == Init /\ [][Next]_vars
FairSpec == Spec /\ \A t \in Threads : WF_vars(Step(t))

----------------------------------------------------------------------------
(* The property, clause by clause *)
ExactlyOnce == runs <= 1
\* nobody is told "success" before the tests have finished and passed
NoEarlyPass == \A t \in Threads : \A i \in 1..Len(rets[t]) : rets[t][i] = 0 => (finished /\ outcome = "pass")
\* every thread observes the same verdict
SameVerdict == \A t \in Threads : \A i \in 1..Len(rets[t]) : rets[t][i] = (IF outcome = "pass" THEN 0 ELSE 1)
\* the status word is written once after RUNNING
WriteOnce == [][(status \in {PASSED, FAILED}) => (status' = status)]_vars
StatusType == status \in {NOT_DONE, RUNNING, PASSED, FAILED}
\* nobody waits forever: every call that starts returns
AllReturn == <>(\A t \in Threads : pc[t] = "idle" /\ left[t] = 0)
Done == \A t \in Threads : pc[t] = "idle" /\ left[t] = 0
=============================================================================
