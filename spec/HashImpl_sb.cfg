SPECIFICATION Spec
CONSTANTS
  Ctx = {c1, c2, c3}
  NLanes = 3
  B = 4
  P = 1
  SegLens = {1, 4}
  MaxTotal = 5
  NoCtx = NoCtx
  SbThreshold = 2
  TrackStream = FALSE
SYMMETRY CtxSym
CONSTRAINT Bounded
INVARIANTS InOrder CompleteIsWhole TotalIsSum PartialLenOk LanePartition OwnersAreHeld ReturnedNotProcessing FlushNullLeavesEmpty NeverFull ReturnedState
CHECK_DEADLOCK FALSE
