#!/usr/bin/env python3
"""Instruction-set requirements of every implementation-family entry point, measured on the built code (C12).

objdump disassembles the linked driver (the whole library is in it); for every family symbol the code
reachable through direct calls/jumps is collected; each distinct instruction text is re-assembled with GNU as
once with every extension enabled (must assemble) and once per extension X with `+noX`: an instruction that
stops assembling needs X.  The result is written as IsaUse events and judged by TLC against
Dispatch!FamilyRequires (the spec's declaration of what each family may use)."""
import os, re, subprocess, json, hashlib, tempfile
import verif, build

GAS_EXT = ["sse3", "ssse3", "sse4.1", "sse4.2", "avx", "avx2", "avx512f", "avx512cd", "avx512dq", "avx512bw", "avx512vl",
           "avx512vbmi", "avx512_vbmi2", "gfni", "vaes", "vpclmulqdq", "avx512_vnni", "avx512_bitalg", "avx512_vpopcntdq",
           "sha", "aes", "pclmul", "bmi", "bmi2", "lzcnt", "popcnt", "movbe", "adx", "avx512ifma"]
NAME = {"sse4.1": "sse4_1", "sse4.2": "sse4_2", "aes": "aesni", "pclmul": "clmul", "avx512vbmi": "avx512_vbmi"}
FAMILIES = ["vaes_avx512", "avx512_ni", "avx_gen2", "avx_gen4", "sb_sse4", "sse_ni", "avx512", "avx2", "avx", "sse", "vaes", "base", "x4", "x8", "00", "04"]


def disassemble(exe):
    """address-ordered blocks: [start address, symbol name, [instruction text], [direct branch targets], falls_through]"""
    out = subprocess.run(["objdump", "-d", "--no-show-raw-insn", exe], capture_output=True, text=True).stdout
    blocks = []
    for line in out.splitlines():
        m = re.match(r"^([0-9a-f]+) <([^>]+)>:$", line)
        if m:
            blocks.append([int(m.group(1), 16), m.group(2), [], [], True])
            continue
        m = re.match(r"^\s+([0-9a-f]+):\t(.*)$", line)
        if m and blocks:
            ins = m.group(2).strip()
            blk = blocks[-1]
            blk[2].append(ins)
            t = re.match(r"^(?:notrack |bnd )?(j\w+|call|loop\w*)\s+([0-9a-f]+)\b", ins)
            if t:
                blk[3].append(int(t.group(2), 16))
            first = ins.split()[0] if ins.split() else ""
            if first.startswith("nop") or ins.startswith("data16") or ins.startswith("cs nopw") or ins.startswith("xchg   %ax,%ax") or first == "int3":
                continue                      # alignment padding does not change whether control falls through
            blk[4] = not (first in ("ret", "retq", "jmp", "ud2", "hlt") or ins.startswith("notrack jmp") or ins.startswith("bnd jmp"))
    return blocks


def normalise(ins):
    ins = ins.split("#")[0].strip()
    ins = re.sub(r"\s+<[^>]+>", "", ins)
    m = re.match(r"^((?:notrack |bnd )?(?:j\w+|call|loop\w*|jmp))\s+([0-9a-f]+)$", ins)
    if m:
        return m.group(1) + " 0x" + m.group(2)
    return ins


SKIP = re.compile(r"^(\(bad\)|data16|cs nopw|nop|xchg\s+%ax,%ax|\.byte|rex|addr32|ds |es |ss |gs |fs )")


def gas_errors(lines, march):
    with tempfile.NamedTemporaryFile("w", suffix=".s", delete=False, dir=os.path.join(verif.OUT)) as f:
        f.write(".text\n")
        for l in lines:
            f.write(l + "\n")
        path = f.name
    r = subprocess.run(["as", "--64", "-march=" + march, path, "-o", "/dev/null"], capture_output=True, text=True)
    os.remove(path)
    bad = set()
    if "Fatal error" in r.stderr:
        raise verif.MachineryError("GNU as rejected the option set: " + r.stderr[:300])
    for e in r.stderr.splitlines():
        m = re.match(r"^[^:]+:(\d+): Error", e)
        if m:
            bad.add(int(m.group(1)) - 2)     # line 1 is .text
    return bad


def measure(exe):
    cache = os.path.join(build.CACHE, "isa3-" + hashlib.sha1(open(exe, "rb").read()).hexdigest()[:16] + ".json")
    if os.path.exists(cache):
        return json.load(open(cache))
    blocks = disassemble(exe)
    uniq = {}
    for blk in blocks:
        for ins in blk[2]:
            n = normalise(ins)
            if n and not SKIP.match(n) and n not in uniq:
                uniq[n] = len(uniq)
    lines = sorted(uniq, key=lambda k: uniq[k])
    allm = "generic64+" + "+".join(GAS_EXT) + "+fxsr+mmx+sse+sse2+xsave+cmov+387"
    broken = gas_errors(lines, allm)
    needs = {i: set() for i in range(len(lines))}
    for x in GAS_EXT:
        bad = gas_errors(lines, allm + "+no" + x)
        for i in bad - broken:
            needs[i].add(NAME.get(x, x))
    per_ins = {lines[i]: sorted(needs[i]) for i in range(len(lines)) if i not in broken}
    out_blocks = []
    for start, name, body, targets, falls in blocks:
        s = set()
        for ins in body:
            s.update(per_ins.get(normalise(ins), []))
        out_blocks.append([start, name, sorted(s), targets, falls, len(body)])
    res = {"blocks": out_blocks, "unparsed": [lines[i] for i in sorted(broken)][:50], "n_unique": len(lines)}
    json.dump(res, open(cache, "w"))
    return res


def family_of(name):
    base = name[:-3] if name.endswith("_nt") else name
    for f in FAMILIES:
        if base.endswith("_" + f):
            return f
    return None


def check(chk, exe, tier):
    import bisect
    m = measure(exe)
    blocks = m["blocks"]
    starts = [b[0] for b in blocks]
    lib = build.build_lib("def")
    syms = [l.split() for l in open(os.path.join(lib, "syms.txt"))]
    T = {s[2] for s in syms if len(s) == 3 and s[1] == "T"}
    by_name = {}
    for i, b in enumerate(blocks):
        by_name.setdefault(b[1], i)
    # dispatched stubs (entry points with family variants) and their *_mbinit: never followed, each is an entry of its own
    stubs = {n for n in T if family_of(n) is None and any(t.startswith(n + "_") and family_of(t) for t in T)}
    lib_lo = min(blocks[by_name[t]][0] for t in T if t in by_name)
    lib_hi = max(blocks[by_name[t]][0] for t in T if t in by_name)

    def block_at(addr):
        i = bisect.bisect_right(starts, addr) - 1
        return i if i >= 0 else None
    events = []
    for t in sorted(T):
        fam = family_of(t)
        if not fam or "_slver" in t or t not in by_name:
            continue
        seen, todo, need = set(), [by_name[t]], set()
        while todo:
            i = todo.pop()
            if i in seen or i is None:
                continue
            start, name, nd, targets, falls, n = blocks[i]
            if name in stubs or name.endswith("_mbinit") or not (lib_lo <= start <= lib_hi + 65536):
                continue
            seen.add(i)
            need |= set(nd)
            for a in targets:
                todo.append(block_at(a))
            if falls and i + 1 < len(blocks):
                todo.append(i + 1)
        unit = "aes" if (t.startswith("_aes_") or t.startswith("_XTS_")) else "mh" if t.startswith("_mh_") else "rh" if t.startswith("_rolling") else "hash"
        events.append({"e": "IsaUse", "target": t, "fam": fam, "unit": unit, "needs": sorted(need), "reach": len(seen)})
    d = verif.scratch("isa")
    trace = os.path.join(d, "isa.ndjson")
    with open(trace, "w") as f:
        for e in events:
            f.write(json.dumps(e) + "\n")
    res = verif.validate_trace("TraceDispatch", trace)
    if res["consumed"] != res["events"]:
        raise verif.MachineryError("TraceDispatch stopped on IsaUse events: " + res["out_tail"])
    for v in res["viol"]:
        if v["p"] == "C12":
            chk.add_violation(v, replay_lines="# static check: instruction-set use of a family symbol exceeds Dispatch!FamilyRequires\n# %s\n" % json.dumps(v["info"]))
    chk.cov["isa_targets_measured"] = len(events)
    chk.cov["isa_unique_instructions"] = m["n_unique"]
    chk.cov["isa_unparsed_instruction_texts"] = len(m["unparsed"])
    chk.cov["isa_samples"] = [{k: e[k] for k in ("target", "fam", "needs")} for e in events[:3]]
    notes = sorted({x for e in events for x in e["needs"] if x in ("aesni", "clmul", "bmi2", "bmi", "ssse3", "popcnt", "movbe", "lzcnt", "adx")})
    chk.cov["untested_extensions_relied_on"] = notes
