/* drv_gate.c - calls every isal_ entry point with chosen argument vectors (C13, C16).
 *
 *   st <value>                       asm_set_self_tests_status(value): 2 = not run, 0 = passed, 1 = failed
 *   stinj <aes> <sha>                results the wrapped _aes_self_tests / _sha_self_tests report:
 *                                    -9 = run the real tests, any other value = that value
 *   gate <entry> <a0> <a1> ...       per argument: v = valid object/value, n = NULL, x = pointer into an
 *                                    inaccessible page, <integer> = that scalar value; `e` (XTS only) = the
 *                                    data key equal to the tweak key
 *
 * The event lists the argument kinds (signature letters), the return code, how many internal
 * dispatched functions were entered (link seams, not counting the self-tests' own use), which
 * argument objects changed, and the self-test status word before/after. */
#define _GNU_SOURCE
#include "core.h"
#include <string.h>
#include <stdlib.h>
#include <stdarg.h>
#include <sha1_mb.h>
#include <sha256_mb.h>
#include <sha512_mb.h>
#include <md5_mb.h>
#include <sm3_mb.h>
#include <aes_gcm.h>
#include <aes_xts.h>
#include <aes_cbc.h>
#include <aes_keyexp.h>
#include <mh_sha1.h>
#include <mh_sha256.h>
#include <mh_sha1_murmur3_x64_128.h>
#include <rolling_hashx.h>

/* ---- seams (see seams.S): every internal dispatched symbol bumps seam_count unless muted */
volatile int seam_count, seam_mute, st_runs;
volatile int seam_fault2; /* a second broken primitive at the same time */
volatile int seam_fault; /* 0 = none; k = the k-th fault seam corrupts its result (stfault command) */
int inj_aes = -9, inj_sha = -9;
extern int __real__aes_self_tests(void) __attribute__((weak));
extern int __real__sha_self_tests(void) __attribute__((weak));
int
__wrap__aes_self_tests(void)
{
        int r;
        st_runs++;
        seam_mute++;
        r = (inj_aes == -9) ? __real__aes_self_tests() : inj_aes;
        seam_mute--;
        return r;
}
int
__wrap__sha_self_tests(void)
{
        int r;
        seam_mute++;
        r = (inj_sha == -9) ? __real__sha_self_tests() : inj_sha;
        seam_mute--;
        return r;
}
/* ---- fault seams: real routine, then one flipped result bit */
extern void __real__aes_cbc_enc_128(void *in, void *iv, void *keys, void *out, uint64_t len);
void
__fault__aes_cbc_enc_128(void *in, void *iv, void *keys, void *out, uint64_t len)
{
        __real__aes_cbc_enc_128(in, iv, keys, out, len);
        if (len)
                ((uint8_t *) out)[0] ^= 1;
}
extern void __real__aes_gcm_enc_128(void *kd, void *cx, uint8_t *out, const uint8_t *in, uint64_t len, uint8_t *iv, const uint8_t *aad,
                                    uint64_t alen, uint8_t *tag, uint64_t tlen);
void
__fault__aes_gcm_enc_128(void *kd, void *cx, uint8_t *out, const uint8_t *in, uint64_t len, uint8_t *iv, const uint8_t *aad, uint64_t alen,
                         uint8_t *tag, uint64_t tlen)
{
        __real__aes_gcm_enc_128(kd, cx, out, in, len, iv, aad, alen, tag, tlen);
        if (len)
                out[0] ^= 1;
        else if (tlen)
                tag[0] ^= 1;
}
extern void __real__XTS_AES_128_enc(uint8_t *k2, uint8_t *k1, uint8_t *tw, uint64_t n, const uint8_t *in, uint8_t *out);
void
__fault__XTS_AES_128_enc(uint8_t *k2, uint8_t *k1, uint8_t *tw, uint64_t n, const uint8_t *in, uint8_t *out)
{
        __real__XTS_AES_128_enc(k2, k1, tw, n, in, out);
        if (n >= 16)
                out[0] ^= 1;
}
#define FLUSH_FAULT(alg, ALG)                                                                      \
        extern ISAL_##ALG##_HASH_CTX *__real__##alg##_ctx_mgr_flush(ISAL_##ALG##_HASH_CTX_MGR *);      \
        ISAL_##ALG##_HASH_CTX *__fault__##alg##_ctx_mgr_flush(ISAL_##ALG##_HASH_CTX_MGR *m)            \
        {                                                                                          \
                ISAL_##ALG##_HASH_CTX *c = __real__##alg##_ctx_mgr_flush(m);                          \
                if (c)                                                                             \
                        ((uint8_t *) c->job.result_digest)[0] ^= 1;                                \
                return c;                                                                          \
        }
FLUSH_FAULT(sha1, SHA1)
FLUSH_FAULT(sha256, SHA256)
FLUSH_FAULT(sha512, SHA512)

extern int asm_check_self_tests_status(void) __attribute__((weak));
extern void asm_set_self_tests_status(int) __attribute__((weak));
extern uint8_t __start_isal_data[], __stop_isal_data[];

static void *
need(const char *fmt, ...)
{
        char nm[160];
        va_list ap;
        va_start(ap, fmt);
        vsnprintf(nm, sizeof nm, fmt, ap);
        va_end(ap);
        void *f = sym_lookup(nm);
        if (!f)
                die("no symbol %s", nm);
        return f;
}

struct entry {
        const char *name;
        const char *sig; /* one letter per argument */
        const char *alg; /* algorithm tag used to build valid objects */
        int bits;
};
/* signature letters:
 *  G hash manager   H hash ctx   h ctx_out slot   I input data   O output data   l length   F flags
 *  K gcm key_data   C gcm context  V iv(12)  A aad  a aad_len  T tag out  t tag_len  k raw key
 *  E/e schedule out (enc/dec)   S cbc iv(16)  X cbc expanded keys
 *  y/z xts raw key2/key1   Y/Z xts expanded key2/key1   W tweak   L xts length
 *  M mh ctx   D digest out   d second digest out   s seed
 *  R rolling state   r init bytes   w window   q mask   g trigger   f offset out   m match out
 *  n mean   j shift   Q mask out */
static const struct entry entries[] = {
#define HASHE(a)                                                                                   \
        { "isal_" #a "_ctx_mgr_init", "G", #a, 0 }, { "isal_" #a "_ctx_mgr_submit", "GHhIlF", #a, 0 },       \
        { "isal_" #a "_ctx_mgr_flush", "Gh", #a, 0 }
        HASHE(sha1), HASHE(sha256), HASHE(sha512), HASHE(md5), HASHE(sm3),
#define GCME(b)                                                                                    \
        { "isal_aes_gcm_pre_" #b, "kK", "gcm", b }, { "isal_aes_gcm_init_" #b, "KCVAa", "gcm", b },         \
        { "isal_aes_gcm_enc_" #b, "KCOIlVAaTt", "gcm", b }, { "isal_aes_gcm_dec_" #b, "KCOIlVAaTt", "gcm", b }, \
        { "isal_aes_gcm_enc_" #b "_nt", "KCOIlVAaTt", "gcm", b }, { "isal_aes_gcm_dec_" #b "_nt", "KCOIlVAaTt", "gcm", b }, \
        { "isal_aes_gcm_enc_" #b "_update", "KCOIl", "gcmu", b }, { "isal_aes_gcm_dec_" #b "_update", "KCOIl", "gcmu", b }, \
        { "isal_aes_gcm_enc_" #b "_update_nt", "KCOIl", "gcmu", b }, { "isal_aes_gcm_dec_" #b "_update_nt", "KCOIl", "gcmu", b }, \
        { "isal_aes_gcm_enc_" #b "_finalize", "KCTt", "gcmu", b }, { "isal_aes_gcm_dec_" #b "_finalize", "KCTt", "gcmu", b }
        GCME(128), GCME(256),
        { "isal_aes_keyexp_128", "kEe", "kexp", 128 }, { "isal_aes_keyexp_192", "kEe", "kexp", 192 },
        { "isal_aes_keyexp_256", "kEe", "kexp", 256 },
#define CBCE(b) { "isal_aes_cbc_enc_" #b, "ISXOl", "cbcenc", b }, { "isal_aes_cbc_dec_" #b, "ISXOl", "cbcdec", b }
        CBCE(128), CBCE(192), CBCE(256),
#define XTSE(b)                                                                                    \
        { "isal_aes_xts_enc_" #b, "yzWLIO", "xtsenc", b }, { "isal_aes_xts_dec_" #b, "yzWLIO", "xtsdec", b },   \
        { "isal_aes_xts_enc_" #b "_expanded_key", "YZWLIO", "xtsenc", b }, { "isal_aes_xts_dec_" #b "_expanded_key", "YZWLIO", "xtsdec", b }
        XTSE(128), XTSE(256),
        { "isal_mh_sha1_init", "M", "mh_sha1", 0 }, { "isal_mh_sha1_update", "MIl", "mh_sha1", 0 },
        { "isal_mh_sha1_finalize", "MD", "mh_sha1", 0 },
        { "isal_mh_sha256_init", "M", "mh_sha256", 0 }, { "isal_mh_sha256_update", "MIl", "mh_sha256", 0 },
        { "isal_mh_sha256_finalize", "MD", "mh_sha256", 0 },
        { "isal_mh_sha1_murmur3_x64_128_init", "Ms", "mh_sha1_murmur3_x64_128", 0 },
        { "isal_mh_sha1_murmur3_x64_128_update", "MIl", "mh_sha1_murmur3_x64_128", 0 },
        { "isal_mh_sha1_murmur3_x64_128_finalize", "MDd", "mh_sha1_murmur3_x64_128", 0 },
        { "isal_rolling_hash2_init", "Rw", "rh", 0 }, { "isal_rolling_hash2_reset", "Rr", "rh", 0 },
        { "isal_rolling_hash2_run", "RIlqgfm", "rh", 0 }, { "isal_rolling_hashx_mask_gen", "njQ", "rh", 0 },
        { "isal_self_tests", "", "none", 0 }, { "isal_crypto_get_version", "", "none", 0 },
        { "isal_crypto_get_version_str", "", "none", 0 },
};
#define NENT (sizeof entries / sizeof entries[0])

static uint8_t *noaccess; /* middle of a PROT_NONE region */
/* the self-test status word is a local label of asm_self_tests.asm: find it once by writing a marker */
static volatile int *st_word;
static int
verif_read_self_test_status(void)
{
        if (!st_word) {
                if (!asm_set_self_tests_status)
                        return -1;
                st_word = find_self_test_word(asm_set_self_tests_status);
                if (!st_word)
                        die("self_test_status not found");
        }
        return *st_word;
}
#include <sys/mman.h>

#define MAXA 12
struct argobj {
        gbuf g;
        int is_ptr, present;
        uint64_t val;
        uint64_t sum_before;
};

static size_t
hash_sizes(const char *alg, size_t *ctxsz, size_t *o_status, size_t *o_err)
{
#define HS(a, A)                                                                                   \
        if (!strcmp(alg, #a)) {                                                                    \
                *ctxsz = sizeof(ISAL_##A##_HASH_CTX);                                              \
                *o_status = offsetof(ISAL_##A##_HASH_CTX, status);                                 \
                *o_err = offsetof(ISAL_##A##_HASH_CTX, error);                                     \
                return sizeof(ISAL_##A##_HASH_CTX_MGR);                                            \
        }
        HS(sha1, SHA1) HS(sha256, SHA256) HS(sha512, SHA512) HS(md5, MD5) HS(sm3, SM3) die("alg %s", alg);
}

static void
icall(void *fn, int n, ...)
{ /* setup call through the internal (ungated) symbols; seams muted */
        uint64_t a[8];
        va_list ap;
        va_start(ap, n);
        for (int i = 0; i < n; i++)
                a[i] = va_arg(ap, uint64_t);
        va_end(ap);
        obs o;
        seam_mute++;
        vc_begin();
        vcall(fn, n, a, &o);
        seam_mute--;
        if (o.fault)
                die("fault while preparing a valid object");
}

static void
do_gate(const cmd *c)
{
        const struct entry *e = NULL;
        for (size_t i = 0; i < NENT; i++)
                if (!strcmp(entries[i].name, c->t[1]))
                        e = &entries[i];
        if (!e)
                die("unknown entry %s", c->t[1]);
        int na = (int) strlen(e->sig);
        if (c->n != na + 2)
                die("%s: expected %d argument tokens", e->name, na);
        struct argobj A[MAXA];
        memset(A, 0, sizeof A);
        uint64_t args[MAXA];
        const int LEN = 64, AAD = 20;
        int bits = e->bits;
        size_t ksz = (size_t) bits / 8, sched = (size_t) 16 * (size_t) (bits / 32 + 7);
        /* ---- build the valid objects (every letter gets a valid object; tokens override afterwards) */
        gbuf *mgr = NULL, *hctx = NULL, *kd = NULL, *gctx = NULL, *ivb = NULL, *aadb = NULL, *mctx = NULL, *rst = NULL;
        uint8_t rawkey[32], rawkey2[32];
        pat_fill(rawkey, 77, 5, 32);
        pat_fill(rawkey2, 78, 9, 32);
        int xts_same = 0;
        for (int i = 0; i < na; i++)
                if (c->t[i + 2][0] == 'e')
                        xts_same = 1;
        if (xts_same)
                memcpy(rawkey2, rawkey, 32);
        /* 'p' / 'q': distinct keys that share all but the last / first byte (valid calls: must be accepted) */
        for (int i = 0; i < na; i++)
                if (c->t[i + 2][0] == 'p' || c->t[i + 2][0] == 'q') {
                        memcpy(rawkey2, rawkey, 32);
                        rawkey2[c->t[i + 2][0] == 'p' ? (size_t) e->bits / 8 - 1 : 0] ^= 0x40;
                }
        for (int i = 0; i < na; i++) {
                char L = e->sig[i];
                struct argobj *a = &A[i];
                a->present = 1;
                switch (L) {
                case 'G': {
                        size_t cs, os, oe, ms = hash_sizes(e->alg, &cs, &os, &oe);
                        gbuf_alloc(&a->g, ms, PL_MID, 0);
                        hidden_fill(a->g.p, ms, 71);
                        icall(need("_%s_ctx_mgr_init", e->alg), 1, (uint64_t) a->g.p);
                        a->is_ptr = 1;
                        mgr = &a->g;
                        break;
                }
                case 'H': {
                        size_t cs, os, oe;
                        hash_sizes(e->alg, &cs, &os, &oe);
                        gbuf_alloc(&a->g, cs, PL_MID, 0);
                        hidden_fill(a->g.p, cs, 72);
                        *(int32_t *) (a->g.p + oe) = 0;
                        *(uint32_t *) (a->g.p + os) = ISAL_HASH_CTX_STS_COMPLETE;
                        a->is_ptr = 1;
                        hctx = &a->g;
                        break;
                }
                case 'h': case 'f': case 'm': case 'Q':
                        gbuf_alloc(&a->g, 8, PL_MID, 8);
                        memset(a->g.p, 0x5a, 8);
                        a->is_ptr = 1;
                        break;
                case 'I':
                        gbuf_alloc(&a->g, LEN, PL_MID, 0);
                        pat_fill(a->g.p, 79, (uint64_t) i, LEN);
                        a->is_ptr = 1;
                        break;
                case 'O':
                        gbuf_alloc(&a->g, LEN, PL_MID, 0);
                        hidden_fill(a->g.p, LEN, 73);
                        a->is_ptr = 1;
                        break;
                case 'l': a->val = (uint64_t) LEN; break;
                case 'L': a->val = (uint64_t) LEN; break;
                case 'F': a->val = ISAL_HASH_ENTIRE; break;
                case 'a': a->val = (uint64_t) AAD; break;
                case 't': a->val = 16; break;
                case 's': a->val = 0x1234567887654321ull; break;
                case 'w': a->val = 16; break;
                case 'q': a->val = 0xf; break;
                case 'g': a->val = 0; break;
                case 'n': a->val = 4096; break;
                case 'j': a->val = 3; break;
                case 'k':
                        gbuf_alloc(&a->g, ksz, PL_END, 0);
                        memcpy(a->g.p, rawkey, ksz);
                        a->is_ptr = 1;
                        break;
                case 'K':
                        gbuf_alloc(&a->g, sizeof(struct isal_gcm_key_data), PL_MID, 0);
                        hidden_fill(a->g.p, a->g.len, 74);
                        if (strcmp(e->sig, "kK")) /* everything but pre needs a valid precomputed key */
                                icall(need("_aes_gcm_pre_%d", bits), 2, (uint64_t) rawkey, (uint64_t) a->g.p);
                        a->is_ptr = 1;
                        kd = &a->g;
                        break;
                case 'C':
                        gbuf_alloc(&a->g, sizeof(struct isal_gcm_context_data), PL_MID, 0);
                        hidden_fill(a->g.p, a->g.len, 75);
                        a->is_ptr = 1;
                        gctx = &a->g;
                        break;
                case 'V':
                        gbuf_alloc(&a->g, 12, PL_END, 0);
                        pat_fill(a->g.p, 80, 0, 12);
                        a->is_ptr = 1;
                        ivb = &a->g;
                        break;
                case 'A':
                        gbuf_alloc(&a->g, AAD, PL_END, 0);
                        pat_fill(a->g.p, 81, 0, AAD);
                        a->is_ptr = 1;
                        aadb = &a->g;
                        break;
                case 'T': case 'D': case 'd':
                        gbuf_alloc(&a->g, 32, PL_MID, 0);
                        hidden_fill(a->g.p, 32, 76);
                        a->is_ptr = 1;
                        break;
                case 'E': case 'e':
                        gbuf_alloc(&a->g, sched, PL_MID, 0);
                        hidden_fill(a->g.p, sched, 77);
                        a->is_ptr = 1;
                        break;
                case 'S':
                        gbuf_alloc(&a->g, 16, PL_MID, 0);
                        pat_fill(a->g.p, 82, 0, 16);
                        a->is_ptr = 1;
                        break;
                case 'X': {
                        static uint8_t en[240] __attribute__((aligned(16))), de[240] __attribute__((aligned(16)));
                        icall(need("_aes_keyexp_%d", bits), 3, (uint64_t) rawkey, (uint64_t) en, (uint64_t) de);
                        gbuf_alloc(&a->g, sched, PL_MID, 0);
                        memcpy(a->g.p, !strcmp(e->alg, "cbcenc") ? en : de, sched);
                        a->is_ptr = 1;
                        break;
                }
                case 'y': case 'z':
                        gbuf_alloc(&a->g, ksz, PL_END, 0);
                        memcpy(a->g.p, L == 'z' ? rawkey : rawkey2, ksz);
                        a->is_ptr = 1;
                        break;
                case 'Y': case 'Z': {
                        static uint8_t en[240] __attribute__((aligned(16))), de[240] __attribute__((aligned(16)));
                        icall(need("_aes_keyexp_%d", bits), 3, (uint64_t) (L == 'Z' ? rawkey : rawkey2), (uint64_t) en, (uint64_t) de);
                        gbuf_alloc(&a->g, sched, PL_MID, 0);
                        /* key1 (data key): decryption schedule for the dec entry points, key2 (tweak key): always encryption */
                        memcpy(a->g.p, (L == 'Z' && !strcmp(e->alg, "xtsdec")) ? de : en, sched);
                        a->is_ptr = 1;
                        break;
                }
                case 'W':
                        gbuf_alloc(&a->g, 16, PL_END, 0);
                        pat_fill(a->g.p, 83, 0, 16);
                        a->is_ptr = 1;
                        break;
                case 'M': {
                        size_t sz = !strcmp(e->alg, "mh_sha1") ? sizeof(struct isal_mh_sha1_ctx)
                                    : !strcmp(e->alg, "mh_sha256") ? sizeof(struct isal_mh_sha256_ctx)
                                                                   : sizeof(struct isal_mh_sha1_murmur3_x64_128_ctx);
                        gbuf_alloc(&a->g, sz, PL_MID, 0);
                        hidden_fill(a->g.p, sz, 78);
                        if (strlen(e->sig) > 1 && e->sig[1] != 's')
                                icall(need("_%s_init", e->alg), 2, (uint64_t) a->g.p, (uint64_t) 7);
                        a->is_ptr = 1;
                        mctx = &a->g;
                        break;
                }
                case 'R':
                        gbuf_alloc(&a->g, sizeof(struct isal_rh_state2), PL_MID, 0);
                        hidden_fill(a->g.p, a->g.len, 79);
                        if (e->sig[1] != 'w') {
                                static uint8_t initb[64];
                                icall(need("_rolling_hash2_init"), 2, (uint64_t) a->g.p, (uint64_t) 16);
                                icall(need("_rolling_hash2_reset"), 2, (uint64_t) a->g.p, (uint64_t) initb);
                        }
                        a->is_ptr = 1;
                        rst = &a->g;
                        break;
                case 'r':
                        gbuf_alloc(&a->g, 48, PL_END, 0);
                        pat_fill(a->g.p, 84, 0, 48);
                        a->is_ptr = 1;
                        break;
                default: die("bad signature letter %c", L);
                }
        }
        /* contexts that must be initialised for update/finalize */
        if (!strcmp(e->alg, "gcmu") && kd && gctx) {
                static uint8_t iv0[16], aad0[32];
                icall(need("_aes_gcm_init_%d", bits), 5, (uint64_t) kd->p, (uint64_t) gctx->p, (uint64_t) iv0, (uint64_t) aad0, (uint64_t) 20);
        }
        (void) mgr; (void) hctx; (void) ivb; (void) aadb; (void) mctx; (void) rst;
        /* ---- apply the tokens */
        char argdesc[256];
        int ad = 0;
        ad += sprintf(argdesc + ad, "[");
        for (int i = 0; i < na; i++) {
                const char *t = c->t[i + 2];
                struct argobj *a = &A[i];
                if (a->is_ptr) {
                        if (t[0] == 'n')
                                args[i] = 0;
                        else if (t[0] == 'x')
                                args[i] = (uint64_t) noaccess;
                        else
                                args[i] = (uint64_t) a->g.p;
                        ad += sprintf(argdesc + ad, "%s%d", i ? "," : "", t[0] == 'n' ? 0 : t[0] == 'x' ? 2 : t[0] == 'e' ? 3 : 1);
                } else {
                        if (t[0] != 'v')
                                a->val = strtoull(t, NULL, 0);
                        args[i] = a->val;
                        if (a->val < 0x7fffffff)
                                ad += sprintf(argdesc + ad, "%s%llu", i ? "," : "", (unsigned long long) a->val);
                        else
                                ad += sprintf(argdesc + ad, "%s-1", i ? "," : "");
                }
                if (a->is_ptr)
                        a->sum_before = mem_sum(a->g.p, a->g.len);
        }
        sprintf(argdesc + ad, "]");
        int sb = verif_read_self_test_status();
        seam_count = 0;
        st_runs = 0;
        obs o;
        vc_begin();
        for (int i = 0; i < na; i++)
                if (A[i].is_ptr)
                        vc_output(e->sig + i, &A[i].g); /* canaries only; content change is reported per argument */
        uint64_t r = vcall(need("%s", e->name), na, args, &o);
        int sa = verif_read_self_test_status();
        char touched[128];
        int tn = sprintf(touched, "[");
        for (int i = 0, first = 1; i < na; i++)
                if (A[i].is_ptr && mem_sum(A[i].g.p, A[i].g.len) != A[i].sum_before) {
                        tn += sprintf(touched + tn, "%s%d", first ? "" : ",", i + 1);
                        first = 0;
                }
        sprintf(touched + tn, "]");
        ev_begin("Gate");
        ev_str("entry", e->name);
        {
                char sb[128];
                int k = sprintf(sb, "[");
                for (int i = 0; i < na; i++)
                        k += sprintf(sb + k, "%s\"%c\"", i ? "," : "", e->sig[i]);
                sprintf(sb + k, "]");
                ev_raw("sig", sb);
        }
        ev_str("alg", e->alg);
        ev_raw("args", argdesc);
        ev_int("rc", (long long) (int) r);
        ev_int("inner", seam_count);
        ev_raw("touched", touched);
        ev_int("stb", sb);
        ev_int("sta", sa);
        ev_int("stran", st_runs);
        ev_obs(&o);
        ev_end();
        for (int i = 0; i < na; i++)
                if (A[i].is_ptr)
                        gbuf_free(&A[i].g);
}

int
gate_cmd(const cmd *c)
{
        if (!noaccess) {
                uint8_t *m = mmap(NULL, 1 << 20, PROT_NONE, MAP_PRIVATE | MAP_ANONYMOUS | MAP_NORESERVE, -1, 0);
                noaccess = m + (1 << 19);
        }
        if (!strcmp(c->t[0], "st")) {
                if (asm_set_self_tests_status && verif_read_self_test_status() != -1)
                        *st_word = (int) cmd_i(c, 1); /* direct store: the behaviour starts from this verdict */
                return 1;
        }
        if (!strcmp(c->t[0], "stfault")) { /* a broken primitive underneath the real self-tests */
                seam_fault = (int) cmd_i(c, 1);
                seam_fault2 = c->n > 2 ? (int) cmd_i(c, 2) : 0;
                return 1;
        }
        if (!strcmp(c->t[0], "stinj")) {
                inj_aes = (int) cmd_i(c, 1);
                inj_sha = (int) cmd_i(c, 2);
                ev_begin("StInj");
                ev_int("aes", inj_aes);
                ev_int("sha", inj_sha);
                ev_int("fault", seam_fault * 16 + seam_fault2);
                ev_end();
                return 1;
        }
        if (!strcmp(c->t[0], "gate")) {
                do_gate(c);
                return 1;
        }
        if (!strcmp(c->t[0], "gatelist")) { /* dump the entry table (signature letters) */
                for (size_t i = 0; i < NENT; i++) {
                        ev_begin("GateEntry");
                        ev_str("entry", entries[i].name);
                        ev_str("sig", entries[i].sig);
                        ev_str("alg", entries[i].alg);
                        ev_end();
                }
                return 1;
        }
        return 0;
}
