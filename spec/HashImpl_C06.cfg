SPECIFICATION Spec
CONSTANTS
  Ctx = {c1, c2}
  NLanes = 2
  B = 4
  P = 1
  SegLens = {0, 1, 3, 4, 5}
  MaxTotal = 9
  NoCtx = NoCtx
  SbThreshold = 1
  TrackStream = FALSE
CONSTRAINT Bounded
INVARIANTS LanePartition OwnersAreHeld ReturnedNotProcessing FlushNullLeavesEmpty NeverFull ReturnedState
PROPERTIES FlushNullIffEmpty
CHECK_DEADLOCK FALSE
