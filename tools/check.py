#!/usr/bin/env python3
"""Single entry point of every check registered in MANIFEST.json:

    tools/check.py <property id> [--tier quick|thorough] [--replay <file>]

exit 0  property held on everything explored (KNOWN-FINDING / MODEL-DRIFT lines possible)
exit 1  at least one violation not listed in known_findings.jsonl: VIOLATION property=<id> replay=<path>
exit 2  the machinery itself failed (build, TLC parse error, timeout) - never reported as a violation
"""
import argparse, os, sys, traceback

sys.path.insert(0, os.path.dirname(os.path.abspath(__file__)))
import verif  # noqa: E402


def main():
    ap = argparse.ArgumentParser()
    ap.add_argument("prop")
    ap.add_argument("--tier", default=os.environ.get("VERIF_TIER", "quick"))
    ap.add_argument("--replay")
    ap.add_argument("--selftest", action="store_true")
    a = ap.parse_args()
    seed = int(os.environ.get("VERIF_SEED", "1") or "1")
    tier = "thorough" if a.tier.startswith("t") else "quick"
    import checks
    fn = checks.REGISTRY.get(a.prop)
    if not fn:
        print("no check for", a.prop)
        return 2
    try:
        if a.selftest:
            return checks.binding_selftest(a.prop)
        rc = fn(tier=tier, seed=seed, replay=a.replay, selftest=a.selftest)
    except verif.MachineryError as e:
        print("MACHINERY-ERROR property=%s %s" % (a.prop, str(e)[-4000:]))
        return 2
    except Exception:
        traceback.print_exc()
        print("MACHINERY-ERROR property=%s unexpected exception" % a.prop)
        return 2
    finally:
        verif.cleanup_runs()
    return rc


if __name__ == "__main__":
    sys.exit(main())
