---------------------------- MODULE DispatchModel ----------------------------
(* Exhaustive check of the resolver ladders against the verdict spec: one TLC state per architecturally consistent
   configuration (constructed, not filtered: level x AVX-512 group-1 subset x group-2 subsets x SHA x Avoton x OS state). *)
EXTENDS DispatchLadder, TLC, Json, IOUtils

ASSUME TLCSet(12, JsonDeserialize(IOEnv.DTABLE))
Table == TLCGet(12)            \* sequence of [entry, unit, macro, fams]
SetOf(s) == {s[i] : i \in 1..Len(s)}

Levels == { {}, {"sse4_1"}, {"sse4_1", "sse4_2"}, {"sse4_1", "sse4_2", "avx"}, {"sse4_1", "sse4_2", "avx", "avx2"},
            {"sse4_1", "sse4_2", "avx", "avx2", "avx512f"} }
G1X == G1 \ {"avx512f"}
G2Dep == {"avx512_vbmi2", "avx512_vnni", "avx512_bitalg", "avx512_vpopcntdq"}
G2Free == {"gfni", "vaes", "vpclmulqdq"}
OsStates(lvl) == { {}, {"osxsave"}, {"osxsave", "x_sse"} }
                 \cup (IF "avx" \in lvl THEN { {"osxsave", "x_sse", "x_avx"} } ELSE {})
                 \cup (IF "avx512f" \in lvl THEN { {"osxsave", "x_sse", "x_avx"} \cup ZmmState } ELSE {})
\* DFULL=1: every subset of the AVX-512 extension groups; otherwise {none, all, all but one, one}
Subs(S) == IF IOEnv.DFULL = "1" THEN SUBSET S ELSE {{}, S} \cup {S \ {x} : x \in S} \cup {{x} : x \in S}
Cfgs == UNION { { lvl \cup g1 \cup g2d \cup g2f \cup sha \cup avo \cup os \cup {"aesni", "clmul"} :
                    g1 \in (IF "avx512f" \in lvl THEN Subs(G1X) ELSE {{}}),
                    g2d \in (IF "avx512f" \in lvl THEN Subs(G2Dep) ELSE {{}}),
                    g2f \in SUBSET G2Free, sha \in {{}, {"sha"}},
                    avo \in (IF "avx" \in lvl THEN {{}} ELSE {{}, {"avoton"}}),
                    os \in OsStates(lvl) } : lvl \in Levels }

VARIABLE cfg
Init == cfg \in Cfgs
Next == UNCHANGED cfg
Spec == Init /\ [][Next]_cfg

Chosen(e) == e.fams[Ladder(e.macro, cfg)]
AllConsistent == Consistent(cfg)
LadderBindsOnlyExecutableCode == \A i \in 1..Len(Table) : LET e == Table[i] IN
                                    e.macro \in KnownMacros /\ BindingOk(cfg, e.unit, Chosen(e))
SharedObjectsOneFamily == \A g \in Groups : Cardinality({Chosen(Table[i]) : i \in {j \in 1..Len(Table) : Table[j].entry \in g}}) <= 1
=============================================================================
