------------------------------ MODULE TraceJob ------------------------------
(***************************************************************************)
(* The lane scheduler called directly (the *_mb_mgr_* assembly that the    *)
(* context layer hides).  Verdict: a job handed back was submitted and is  *)
(* handed back once, marked COMPLETED, and its chaining value equals the   *)
(* raw compression function folded over its blocks from the value the      *)
(* caller put in (no padding at this level); flush returns nothing exactly *)
(* when no job is held.  Every event also carries the machine contracts.   *)
(***************************************************************************)
EXTENDS HashStd, Machine, TraceLib, FiniteSets

VARIABLES l, alg, fam, jobs, lost, viol
IsEv(name) == l <= NEv /\ Tr[l].e = name
Adv(v) == /\ l' = l + 1 /\ viol' = Cap(viol \o v) /\ PubResult(viol', l')
TInit == l = 1 /\ alg = "none" /\ fam = "none" /\ jobs = << >> /\ lost = TRUE /\ viol = << >> /\ PubResult(<< >>, 1)

Held == DOMAIN jobs
Chain(a, seg) == LET B == BlockSize(a)
                 IN FoldLeft(LAMBDA st, i : Compress(a, st, PatBytes(seg[1], seg[2] + (i - 1) * B, B)), IV(a), [i \in 1..seg[3] |-> i])
MC(e) ==    Chk(ABIOk(e.obs), "C19", "abi", l, << e.e, alg, fam, e.obs >>)
         \o Chk(NoFault(e.obs), "FAULT", "call-faulted", l, << e.e, alg, fam, e.obs.fault, e.obs.fw >>)
         \o Chk(MemOk(e.obs), "C08", "mem", l, << e.e, alg, fam, e.obs >>)
         \o Chk(StaticOk(e.obs, FALSE), "C18", "static-write", l, << e.e, alg, fam, e.obs.stsym >>)
RetChecks(e, js) ==
  IF e.ret = -1 THEN << >>
  ELSE    \* ISAL_JOB_STS is internal; the single-buffer manager (sb_sse4) hands the job back without touching its status word
          Chk(fam = "sb_sse4" \/ e.jst = 2, "DRIFT", "scheduler-job-not-marked-completed", l, << alg, fam, e.ret, e.jst >>)
       \o Chk(e.dig = ToHex(Chain(alg, js[e.ret])), "C01", "scheduler-chaining-value", l, << alg, fam, js[e.ret], e.dig >>)

TReset == /\ IsEv("JReset")
          /\ alg' = Tr[l].alg /\ fam' = Tr[l].fam /\ jobs' = << >> /\ lost' = FALSE /\ Adv(MC(Tr[l]))
TSubmit ==
  /\ IsEv("JSubmit") /\ ~lost /\ UNCHANGED << alg, fam >>
  /\ LET e == Tr[l]
         js == [x \in Held \cup {e.j} |-> IF x = e.j THEN e.seg ELSE jobs[x]]
     IN IF e.obs.fault # 0 \/ (e.ret # -1 /\ e.ret \notin DOMAIN js)
        THEN jobs' = jobs /\ lost' = TRUE
             /\ Adv(MC(e) \o Chk(e.obs.fault # 0, "C06", "scheduler-returned-job-not-held", l, << alg, fam, e.ret, Held >>))
        ELSE /\ jobs' = [x \in (DOMAIN js) \ {e.ret} |-> js[x]] /\ lost' = FALSE
             /\ Adv(RetChecks(e, js) \o MC(e))
TFlush ==
  /\ IsEv("JFlush") /\ ~lost /\ UNCHANGED << alg, fam >>
  /\ LET e == Tr[l] IN
     IF e.obs.fault # 0 \/ (e.ret = -1) # (Held = {}) \/ (e.ret # -1 /\ e.ret \notin Held)
     THEN jobs' = jobs /\ lost' = TRUE
          /\ Adv(MC(e) \o Chk(e.obs.fault # 0, "C06", "scheduler-flush-result-inconsistent-with-held-jobs", l, << alg, fam, e.ret, Held >>))
     ELSE /\ jobs' = [x \in Held \ {e.ret} |-> jobs[x]] /\ lost' = FALSE
          /\ Adv(RetChecks(e, jobs) \o MC(e))
TSkip == /\ l <= NEv /\ (Tr[l].e = "Mark" \/ (lost /\ Tr[l].e \in {"JSubmit", "JFlush"}))
         /\ UNCHANGED << alg, fam, jobs, lost >> /\ Adv(<< >>)
TNext == TReset \/ TSubmit \/ TFlush \/ TSkip
TSpec == TInit /\ [][TNext]_<< l, alg, fam, jobs, lost, viol >>
TraceAccepted == WriteResult /\ TLCGet(2) = NEv + 1
=============================================================================
