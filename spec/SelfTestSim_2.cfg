SPECIFICATION HSpec
CONSTANTS
  Threads = {t1, t2}
  Calls = 2
  Outcomes = {"pass", "fail"}
INVARIANT DumpAtEnd
CHECK_DEADLOCK FALSE
