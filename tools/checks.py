"""The checks, one function per property; REGISTRY maps property id -> function."""
import json, os, random, hashlib, re, subprocess, time
from concurrent.futures import ThreadPoolExecutor
import verif, build, gen_hash

REGISTRY = {}
HASH_SRCS = ["main.c", "core.c", "vcall.S", "drv_hash.c"]
WORKERS = 14


def reg(pid):
    def deco(f):
        REGISTRY[pid] = f
        return f
    return deco


def _behaviour_of_event(trace_path, l, marker="HReset"):
    """index (0-based) of the behaviour containing event l (1-based)"""
    n = -1
    with open(trace_path) as f:
        for i, line in enumerate(f, 1):
            if '"e":"%s"' % marker in line[:40]:
                n += 1
            if i >= l:
                break
    return max(n, 0)


def run_jobs(jobs, exe, trace_spec, env=None, dfs=False):
    """jobs: list of dict(name, behaviours=[list of command lines]).  Runs driver + TLC validation in
    parallel.  Returns list of dict(job, result, trace, rc)."""
    def one(job):
        d = verif.scratch(job["name"])
        trace = os.path.join(d, "trace.ndjson")
        text = ""
        for i, b in enumerate(job["behaviours"]):
            text += "mark %d\n" % i + "\n".join(b) + "\n"
        rc, err = verif.run_driver(exe, text, trace, env=env)
        if rc not in (0,):
            raise verif.MachineryError("driver failed on job %s rc=%d: %s" % (job["name"], rc, err[-800:]))
        res = verif.validate_trace(trace_spec, trace, dfs=dfs, env=job.get("env"))
        if res["consumed"] != res["events"]:
            raise verif.MachineryError("trace spec %s stopped at event %d of %d in job %s (spec cannot explain the event shape):\n%s"
                                       % (trace_spec, res["consumed"] + 1, res["events"], job["name"], res["out_tail"]))
        return {"job": job, "result": res, "trace": trace, "aborted": "trace ends here" in err}
    with ThreadPoolExecutor(max_workers=WORKERS) as ex:
        return list(ex.map(one, jobs))


def collect(chk, outs, props, marker="HReset"):
    """Feed violation records with property in `props` into the Check; returns stats."""
    nb = ne = 0
    for o in outs:
        nb += len(o["job"]["behaviours"])
        ne += o["result"]["events"]
        for v in o["result"]["viol"]:
            if v["p"] == "DRIFT":       # implementation-shaped layer disagrees with the code: reported, never a violation
                chk.drift.append("%s %s %s" % (o["job"]["name"], v["what"], json.dumps(v["info"])[:300]))
                continue
            if v["p"] not in props and v["p"] != "FAULT":
                chk.other[v["p"]] = chk.other.get(v["p"], 0) + 1
                continue
            bi = _behaviour_of_event(o["trace"], v["l"], marker)
            beh = o["job"]["behaviours"][min(bi, len(o["job"]["behaviours"]) - 1)]
            pre = o["job"].get("prelude", "")
            chk.add_violation(dict(v, p=chk.prop), replay_lines="# driver: %s\n%s%s\n" % (o["job"].get("driver", "hash"), pre, "\n".join(beh)),
                              tag=o["job"]["name"])
    return nb, ne


# ------------------------------------------------------------------------------------------ hash
def hash_jobs(seed, per_fam, algs=None, rejects=0.0, classes=True, fams=None):
    rng = random.Random(seed)
    jobs = []
    for alg in (algs or list(gen_hash.FAMS)):
        for fam in (fams or gen_hash.all_families(alg)):
            if fam not in gen_hash.all_families(alg):
                continue
            bs = []
            for i in range(per_fam):
                if classes and i % 2 == 0:
                    bs.append(gen_hash.class_behaviour(rng, alg, fam, gen_hash.CLASS_PATTERNS[(i // 2) % len(gen_hash.CLASS_PATTERNS)]))
                else:
                    bs.append(gen_hash.random_behaviour(rng, alg, fam, with_rejects=rejects))
            jobs.append(hash_job("%s-%s" % (alg, fam), bs))
    return jobs


def hash_job(name, bs):
    maxn = max([int(l.split()[3]) for b in bs for l in b if l.startswith("hmgr ")] + [1])
    return {"name": name, "behaviours": bs, "driver": "hash", "env": {"MAXN": str(maxn)}}


def replay_variant(path):
    """behaviours recorded by the FIPS-build pass carry 'variant=fips' in their '# driver:' line"""
    text = open(path).read()
    return "nosafe" if "variant=nosafe" in text else "dbg" if "variant=dbg" in text else "fips" if "variant=fips" in text else "def"


def fips_legacy_pass(chk, unit, rng, props, tier, variant="fips", allfams=False):
    """the deprecated (un-prefixed) and per-family entry points are not gated and must compute the same in a FIPS_MODE build:
    a slim pass of the unit's behaviours through them on the FIPS variant (the isal_ entry points of non-approved algorithms
    refuse there, which is C13's subject)."""
    k = 1 if tier == "quick" else 6
    if unit == "hash":
        exe = build.build_driver("hash", HASH_SRCS, variant=variant)
        jobs = hash_jobs(rng.randrange(1 << 30), (2 if allfams else 4) * k, fams=None if allfams else ["legacy"], rejects=0.15)
        spec, marker = "TraceHash", "HReset"
    elif unit == "aes":
        exe = build.build_driver("aes", AES_SRCS, variant=variant)
        aj = {}
        af = None if allfams else ["legacy"]
        aj.update(gen_aes.gcm_oneshot_behaviours(rng, 14 * k, fams=af))
        aj.update(gen_aes.gcm_stream_jobs(rng, 2 * k, fams=af))
        aj.update(gen_aes.xts_jobs(rng, 4 * k, fams=af))
        aj.update({n: b for n, b in gen_aes.cbc_jobs(rng, 2 * k).items() if allfams or "-legacy-" in n})
        aj.update({n: b for n, b in gen_aes.kexp_jobs(rng, 2 * k).items() if allfams or "-legacy-" in n or "-precomp-" in n})
        jobs = merge_jobs(aj)
        spec, marker = "TraceAes", "Mark"
    else:
        exe = build.build_driver("mh", MH_SRCS, variant=variant, wraps=MH_WRAPS)
        mj = {}
        for alg in ("sha1", "sha256", "murmur"):
            mj.update(gen_mh.mh_jobs(rng, alg, 3 * k, fams=None if allfams else ["legacy", "legacy_base", "avx2"]))
        mj.update({n: [[l + " legacy" if l.startswith("rhmask ") else l for l in b] for b in bs]
                   for n, bs in gen_mh.rh_jobs(rng, 4 * k).items() if n.endswith("-legacy") or (allfams and variant != "fips")})
        jobs = merge_jobs(mj, key=lambda n: n, driver="mh")
        spec, marker = "TraceMh", "Mark"
    for j in jobs:
        j["name"] = variant + "-" + j["name"]
        j["driver"] = j.get("driver", unit) + " variant=" + variant
    outs = run_jobs(jobs, exe, spec)
    nb, ne = collect(chk, outs, props, marker=marker)
    chk.cov["%s_build_legacy_pass" % variant] = {"behaviours": nb, "events": ne}
    return nb, ne


def hash_replay(chk, path, props):
    exe = build.build_driver("hash", HASH_SRCS, variant=replay_variant(path))
    lines = [x for x in open(path).read().splitlines() if x and not x.startswith("#")]
    outs = run_jobs([hash_job("replay", [lines])], exe, "TraceHash")
    collect(chk, outs, props)
    return outs


def model_check(chk, runs):
    """runs: list of (spec, cfg, workers, timeout). Adds TLC state counts to the evidence;
    an invariant / property violation in the model is a VIOLATION of the check's property."""
    tot_g = tot_d = 0
    details = []
    for spec, cfg, workers, timeout in runs:
        rc, out, dt = verif.tlc(spec, cfg=cfg, workers=workers, timeout=timeout, xmx="24g")
        g, d = verif.tlc_stats(out)
        tot_g += g
        tot_d += d
        details.append({"spec": spec, "cfg": cfg, "generated": g, "distinct": d, "s": round(dt, 1), "rc": rc})
        if rc == 0:
            continue
        if "is violated" in out or "Temporal properties were violated" in out or "Deadlock reached" in out:
            what = "model-invariant"
            tail = out[out.find("Error:"):][:3000]
            chk.add_violation({"p": chk.prop, "what": what, "l": 0, "info": [spec, cfg, tail]}, replay_lines=tail)
        else:
            raise verif.MachineryError("TLC failed on %s/%s rc=%d:\n%s" % (spec, cfg, rc, out[-3000:]))
    chk.cov["states"] = tot_d
    chk.cov["transitions"] = tot_g
    chk.cov["model_runs"] = details
    return details


def _finish_traces(chk, jobs, outs, nb, ne, rule):
    chk.cov["traces_validated_against_impl"] = nb
    chk.cov["evaluations"] = ne
    distinct = {hashlib.sha1("\n".join(b).encode()).hexdigest() for j in jobs for b in j["behaviours"] if len(b) > 3}
    chk.cov["distinct_nontrivial"] = len(distinct)
    chk.cov["rule"] = rule
    chk.cov["samples"] = [{"job": j["name"], "behaviour": j["behaviours"][0][:12]} for j in jobs[:3]]
    chk.cov["jobs"] = len(jobs)
    chk.cov["tlc_validation_s"] = round(sum(o["result"]["tlc_s"] for o in outs), 1)


@reg("C01")
def check_c01(tier, seed, replay=None, selftest=False):
    chk = verif.Check("C01", "model_checking", tier, seed)
    props = {"C01"}
    if replay:
        hash_replay(chk, replay, props)
        chk.cov.update({"states": 1, "transitions": 1, "traces_validated_against_impl": 1, "samples": [replay]})
        return chk.finish()
    exe = build.build_driver("hash", HASH_SRCS)
    model_check(chk, [("HashImpl", "HashImpl_C01.cfg", 12, 900)] + ([("HashImpl", "HashImpl_2x2.cfg", 12, 1500)] if tier != "quick" else []))
    jobs = hash_jobs(seed, 24 if tier == "quick" else 400)
    outs = run_jobs(jobs, exe, "TraceHash")
    nb, ne = collect(chk, outs, props)
    # the lane scheduler called directly: raw chaining values of whole-block jobs (TraceJob)
    jjobs = gen_hash.job_jobs(random.Random(seed + 5), 10 if tier == "quick" else 150)
    jouts = run_jobs(jjobs, build.build_driver("job", JOB_SRCS), "TraceJob")
    b2, e2 = collect(chk, jouts, props, marker="JReset")
    nb, ne, jobs, outs = nb + b2, ne + e2, jobs + jjobs, outs + jouts
    vr = random.Random(seed * 31 + 1)
    fips_legacy_pass(chk, "hash", vr, props, tier)
    fips_legacy_pass(chk, "hash", vr, props, tier, variant="nosafe", allfams=True)
    fips_legacy_pass(chk, "hash", vr, props, tier, variant="dbg", allfams=True)
    _finish_traces(chk, jobs, outs, nb, ne,
                   "behaviour = one manager's history (random + state-class-directed generators, all 28 family instances "
                   "+ isal_/legacy entry points); evaluations = public-call events validated by TLC against HashAPI; "
                   "distinct = distinct command sequences with more than one submit")
    chk.assumptions += ["TLC + Java primitive overrides (self-tested at setup)", "host CPU executes every family"]
    return chk.finish()


def _hash_check(pid, tier, seed, replay, per_quick, per_thorough, rejects, rule_extra=""):
    chk = verif.Check(pid, "model_checking", tier, seed)
    props = {pid}
    if replay:
        hash_replay(chk, replay, props)
        chk.cov.update({"states": 1, "transitions": 1, "traces_validated_against_impl": 1, "samples": [replay]})
        return chk.finish()
    exe = build.build_driver("hash", HASH_SRCS)
    model_check(chk, [("HashImpl", "HashImpl_%s.cfg" % pid, 12, 900)] + ([("HashImpl", "HashImpl_2x2.cfg", 12, 1500), ("HashImpl", "HashImpl_refine.cfg", 12, 900), ("HashImpl", "HashImpl_sb.cfg", 12, 900)] if tier != "quick" else []))
    jobs = hash_jobs(seed * 7919 + int(pid[1:]), per_quick if tier == "quick" else per_thorough, rejects=rejects)
    outs = run_jobs(jobs, exe, "TraceHash")
    nb, ne = collect(chk, outs, props)
    vr = random.Random(seed * 31 + int(pid[1:]))
    fips_legacy_pass(chk, "hash", vr, props, tier)
    # other build configurations compile other code: SAFE_DATA=n (scrubbing %ifdef'ed out) and lib_debug=1 (assertions live, as in
    # the autotools build) - every family, few behaviours
    fips_legacy_pass(chk, "hash", vr, props, tier, variant="nosafe", allfams=True)
    fips_legacy_pass(chk, "hash", vr, props, tier, variant="dbg", allfams=True)
    _finish_traces(chk, jobs, outs, nb, ne,
                   "behaviour = one manager's history (random + state-class-directed generators, all 28 family instances "
                   "+ isal_/legacy entry points)" + rule_extra + "; evaluations = public-call events validated by TLC "
                   "against HashAPI; distinct = distinct command sequences with more than one submit")
    chk.assumptions += ["TLC + Java primitive overrides (self-tested at setup)", "host CPU executes every family"]
    return chk


@reg("C06")
def check_c06(tier, seed, replay=None, selftest=False):
    chk = _hash_check("C06", tier, seed, replay, 24, 400, 0.15, ", with mid-stream flushes, drain epilogue and a few refused calls")
    if isinstance(chk, int):
        return chk
    lane_level(chk, build.build_driver("hash", HASH_SRCS), tier, seed)
    return chk.finish()


@reg("C11")
def check_c11(tier, seed, replay=None, selftest=False):
    chk = _hash_check("C11", tier, seed, replay, 24, 400, 0.3, ", with refused submits (bad flags, in-flight context, continue-after-complete) injected at random points")
    if isinstance(chk, int):
        return chk
    # the refusal matrix: {fresh, idle, in flight (body), in flight (padding block), complete} x {UPDATE, FIRST, LAST, ENTIRE, invalid}
    rng = random.Random(seed * 977 + 11)
    jobs = []
    for alg in gen_hash.FAMS:
        for fam in gen_hash.all_families(alg):
            jobs.append(hash_job("c11-matrix-%s-%s" % (alg, fam), gen_hash.refuse_matrix(rng, alg, fam)))
    outs = run_jobs(jobs, build.build_driver("hash", HASH_SRCS), "TraceHash")
    nb, ne = collect(chk, outs, {"C11"})
    chk.cov["refusal_matrix"] = {"behaviours": nb, "events": ne}
    return chk.finish()


# ------------------------------------------------------------------------------------------ AES
import gen_aes
AES_SRCS = ["main.c", "core.c", "vcall.S", "drv_aes.c"]


def merge_jobs(jobs, key=lambda n: "-".join(n.split("-")[:2]), driver="aes", prelude=""):
    merged = {}
    for name, bs in jobs.items():
        merged.setdefault(key(name), []).extend(bs)
    return [{"name": k, "behaviours": v, "driver": driver, "prelude": prelude} for k, v in sorted(merged.items())]


def aes_check(pid, tier, seed, replay, make_jobs, rule=None, level="model_checking", props=None, model=None, prelude=""):
    chk = verif.Check(pid, level, tier, seed)
    props = props or {pid}
    exe = build.build_driver("aes", AES_SRCS, variant=replay_variant(replay) if replay else "def")
    if replay:
        lines = [x for x in open(replay).read().splitlines() if x and not x.startswith("#")]
        outs = run_jobs([{"name": "replay", "behaviours": [lines]}], exe, "TraceAes")
        collect(chk, outs, props, marker="Mark")
        chk.cov.update({"states": 1, "transitions": 1, "traces_validated_against_impl": 1, "samples": [replay], "evaluations": 1, "distinct_nontrivial": 2})
        return chk.finish()
    rng = random.Random(seed * 104729 + int(pid[1:]))
    jobs = make_jobs(rng, tier)
    if prelude:
        for j in jobs:
            j["behaviours"] = [[prelude] + b for b in j["behaviours"][:1]] + j["behaviours"][1:]
    if model:
        model_check(chk, model)
    outs = run_jobs(jobs, exe, "TraceAes")
    nb, ne = collect(chk, outs, props, marker="Mark")
    if pid in ("C02", "C03", "C04", "C07"):
        fips_legacy_pass(chk, "aes", rng, props, tier)
        fips_legacy_pass(chk, "aes", rng, props, tier, variant="nosafe", allfams=True)     # SAFE_DATA=n assembles different code paths
        fips_legacy_pass(chk, "aes", rng, props, tier, variant="dbg", allfams=True)
    _finish_traces(chk, jobs, outs, nb, ne, rule)
    chk.cov["distinct_nontrivial"] = len({" ".join(b[-1].split()[:4] + b[-1].split()[-8:]) + str(len(b)) + b[0] for j in jobs for b in j["behaviours"]})
    chk.assumptions += ["TLC + Java primitive overrides (self-tested at setup: FIPS 197, SP 800-38A/D, IEEE 1619 vectors)",
                        "host CPU executes every family", "data/key/IV bytes are seeded pattern data; the kernels have no data-dependent control flow"]
    return chk.finish()


@reg("C02")
def check_c02(tier, seed, replay=None, selftest=False):
    def mk(rng, tier):
        return merge_jobs(gen_aes.gcm_oneshot_behaviours(rng, 28 if tier == "quick" else 0, full=(tier != "quick")))
    return aes_check("C02", tier, seed, replay, mk,
                     "one evaluation = one one-shot GCM call (family x nt x key size x direction x length class x AAD length x tag "
                     "length x placement/alignment) whose ciphertext and tag TLC recomputes from AesModes!GcmEnc/GcmDec; lengths cover "
                     "every block count 0..66 with every residue, the counter-wrap region (240..264 blocks) and 8 KiB; thorough "
                     "enumerates the whole length set per (family, nt, key, direction)")


@reg("C07")
def check_c07(tier, seed, replay=None, selftest=False):
    def mk(rng, tier):
        return merge_jobs(gen_aes.gcm_stream_jobs(rng, 10 if tier == "quick" else 160))
    return aes_check("C07", tier, seed, replay, mk, model=[("GcmCarry", "GcmCarry.cfg", 4, 300)], rule=
                     "one behaviour = init / update* / finalize on one stream; update lengths from the 16x(0..16,17,32,127..129,255..257) "
                     "carry table, sub-block runs that complete a block exactly, counter-wrap crossings, random compositions; nt streams "
                     "use 64-byte multiples on 64-aligned buffers; TLC checks each update's output against the key stream at the spec's "
                     "byte position and the final tag against the one-shot tag of the concatenation")


@reg("C03")
def check_c03(tier, seed, replay=None, selftest=False):
    def mk(rng, tier):
        return merge_jobs(gen_aes.xts_jobs(rng, 48 if tier == "quick" else 0, full=(tier != "quick"), maxlen=True))
    return aes_check("C03", tier, seed, replay, mk,
                     "one evaluation = one XTS call (family x key size x direction x raw/expanded x length x placement); lengths 16..1055 "
                     "(every tail of the by-8 / by-16 loops with and without stealing) + 4 KiB/64 KiB, and lengths 0..15 for the no-touch clause; "
                     "output compared with AesModes!XtsEnc/XtsDec (IEEE 1619 in TLA+)")


@reg("C04")
def check_c04(tier, seed, replay=None, selftest=False):
    def mk(rng, tier):
        j = gen_aes.cbc_jobs(rng, 12 if tier == "quick" else 0, full=(tier != "quick"))
        j.update(gen_aes.kexp_jobs(rng, 8 if tier == "quick" else 200))
        return merge_jobs(j)
    return aes_check("C04", tier, seed, replay, mk,
                     "key expansion: schedules compared byte for byte with Aes!EncSchedule/DecSchedule (FIPS 197 5.2 written in TLA+), "
                     "families sse/avx + dispatched; CBC: every multiple of 16 up to 640 bytes and around the 64-block loop boundaries, "
                     "enc x4/x8, dec sse/avx/vaes_avx512, 128/192/256, in place and out of place, compared with AesModes!CbcEnc/CbcDec")


# ------------------------------------------------------------------------------------------ multi-hash / rolling hash
import gen_mh
MH_SRCS = ["main.c", "core.c", "vcall.S", "drv_mh.c"]
MH_WRAPS = ["_rolling_hash2_run_until"]


def mh_check(pid, tier, seed, replay, make_jobs, rule, props=None):
    chk = verif.Check(pid, "model_checking", tier, seed)
    props = props or {pid}
    exe = build.build_driver("mh", MH_SRCS, wraps=MH_WRAPS, variant=replay_variant(replay) if replay else "def")
    if replay:
        lines = [x for x in open(replay).read().splitlines() if x and not x.startswith("#")]
        outs = run_jobs([{"name": "replay", "behaviours": [lines]}], exe, "TraceMh")
        collect(chk, outs, props, marker="Mark")
        chk.cov.update({"states": 1, "transitions": 1, "traces_validated_against_impl": 1, "samples": [replay], "evaluations": 1, "distinct_nontrivial": 2})
        return chk.finish()
    rng = random.Random(seed * 15485863 + int(pid[1:]))
    jobs = make_jobs(rng, tier)
    if pid in ("C05", "C10"):
        model_check(chk, [("MhCarry", "MhCarry.cfg", 4, 300)])
    if pid == "C09":
        # the transcription of rolling_hash2_run against the closed-form definition: every stream over a toy alphabet, every
        # initial window, every sequence of max_len values (cut-independence is exactly this quantifier)
        model_check(chk, [("RhImpl", "RhImpl.cfg", 8, 600)] + ([("RhImpl", "RhImpl_w3.cfg", 12, 1500)] if tier != "quick" else []))
        rc_m, out_m, _ = verif.tlc("RhImpl", cfg="RhImpl_mut.cfg", workers=4, timeout=300)
        if "Invariant ImplEqualsDefinition is violated" not in out_m:
            raise verif.MachineryError("RhImpl_mut must violate ImplEqualsDefinition (model would be vacuous):\n" + out_m[-1500:])
    outs = run_jobs(jobs, exe, "TraceMh")
    nb, ne = collect(chk, outs, props | {"SPEC"}, marker="Mark")
    fips_legacy_pass(chk, "mh", rng, props, tier)
    fips_legacy_pass(chk, "mh", rng, props, tier, variant="nosafe", allfams=True)
    fips_legacy_pass(chk, "mh", rng, props, tier, variant="dbg", allfams=True)
    _finish_traces(chk, jobs, outs, nb, ne, rule)
    chk.assumptions += ["TLC + Java primitive overrides (self-tested at setup)", "host CPU executes every family"]
    return chk.finish()


@reg("C05")
def check_c05(tier, seed, replay=None, selftest=False):
    def mk(rng, tier):
        n = 10 if tier == "quick" else 200
        j = gen_mh.mh_jobs(rng, "sha1", n)
        j.update(gen_mh.mh_jobs(rng, "sha256", n))
        # streams of 2^29 bytes and more (bit length no longer fits 32 bits): quick = one rotating family per algorithm + isal_
        fams = gen_mh.MH_FAMS[:5]
        for ai, alg in enumerate(("sha1", "sha256")):
            sel = [fams[(seed + ai) % 5], "isal"] if tier == "quick" else gen_mh.MH_FAMS
            for f in sel:
                j["mhbig-%s-%s" % (alg, f)] = [gen_mh.mh_big_behaviour(rng, alg, f, rng.choice([1 << 29, (1 << 29) + 1500, (1 << 29) + 1024 * 77 + 1016]))]
        return merge_jobs(j, key=lambda n: n, driver="mh")
    return mh_check("C05", tier, seed, replay, mk,
                    "one behaviour = init / update* / finalize of one stream (totals around the 1015/1016 two-block tail threshold and "
                    "1024-byte multiples, 1..8 updates incl. empty ones, cuts at every residue class near block boundaries) per family "
                    "(base sse avx avx2 avx512 + isal_/legacy/legacy *_base entry points), mh_sha1 and mh_sha256; TLC recomputes the digest "
                    "from MultiHash!MhDigest (the definition written in TLA+) over the concatenation the spec recorded")


@reg("C10")
def check_c10(tier, seed, replay=None, selftest=False):
    def mk(rng, tier):
        j = gen_mh.mh_jobs(rng, "murmur", 14 if tier == "quick" else 300)
        # streams of 2^29 bytes and more (the bit length no longer fits 32 bits): quick = one rotating family + isal_
        fams = gen_mh.MH_FAMS[:5]
        for f in ([fams[seed % 5], "isal"] if tier == "quick" else gen_mh.MH_FAMS):
            j["mhbig-murmur-%s" % f] = [gen_mh.mh_big_behaviour(rng, "murmur", f, rng.choice([1 << 29, (1 << 29) + 1500, (1 << 29) + 1024 * 77 + 1016]))]
        return merge_jobs(j, key=lambda n: n, driver="mh")
    return mh_check("C10", tier, seed, replay, mk,
                    "as C05 for the stitched function with seeds {0, 1, 2^32-1, 2^63, 2^64-1, random}; TLC checks the mh_sha1 half against "
                    "MultiHash!MhDigest and the murmur half against MurmurHash3_x64_128 of the whole stream with both state words = seed")


@reg("C09")
def check_c09(tier, seed, replay=None, selftest=False):
    def mk(rng, tier):
        return merge_jobs(gen_mh.rh_jobs(rng, 12 if tier == "quick" else 250), key=lambda n: n, driver="mh")
    return mh_check("C09", tier, seed, replay, mk,
                    "one behaviour = init(w) / reset / run* where every run resumes at the offset the library returned; max_len from "
                    "{0,1,w-1,w,w+1,..,random}, masks of 2..8 rotated bits and random sparse masks, trigger 0 or trigger&~mask=0; scan routine "
                    "forced to base/_00/_04/dispatched through a link seam; TLC recomputes offset, match and state->hash from the window "
                    "recurrence over the pinned table (RhTable) keeping only the last w bytes as state")


# ------------------------------------------------------------------------------------------ C15 long streams
def c15_behaviour(rng, alg, fam, crossing, nctx=1, variant=None):
    """segments whose running total crosses 2^29 / 2^32 / 2^32+2^29 at a chosen residue; each submit < 2^32"""
    B = gen_hash.BLOCK[alg]
    P = gen_hash.LENF[alg]
    cmds = ["hmgr %s %s %d" % (alg, fam, nctx)]
    for c in range(nctx):
        b = rng.randrange(2, 1 << 20)
        res = rng.choice([0, 1, B - P - 1, B - P, B - 1])
        segs = []
        if crossing == 29:
            first = (1 << 29) - rng.choice([1, B, 3 * B + 5, 1000])
            segs = [first, (1 << 29) - first + res + rng.choice([0, B, 5 * B])]
        elif crossing == 32:
            r = rng.random() if variant is None else (0.1, 0.45, 0.9)[variant % 3]
            if r < 0.3:
                segs = [(1 << 32) - 1, 1 + res + rng.choice([0, B])]                 # one maximal submit
            elif r < 0.6:
                # a pending partial block followed by one of the largest legal segments: partial + len wraps 32 bits
                p0 = rng.choice([1, 37, B - 1, B // 2])
                segs = [p0, (1 << 32) - rng.choice([1, 1, p0, B])] + ([res] if res else [])
            else:
                a = (1 << 31) + rng.randrange(0, 1 << 20)
                segs = [a, (1 << 32) - a - rng.choice([1, 7, B]), rng.choice([1, 7, B]) + res]
        else:
            segs = [(1 << 32) - 1, (1 << 29) - rng.choice([0, 3, B]), rng.choice([1, 3, B]) + res + B]
        tail = [rng.choice([0, 1, B - P, 70])]
        allsegs = segs + tail
        off = rng.randrange(1 << 20)
        for i, ln in enumerate(allsegs):
            flag = 1 if i == 0 else (2 if i == len(allsegs) - 1 else 0)
            cmds.append("hsubw %d %d %d %d %d e" % (c, flag, b, off, ln))
            off += ln
    cmds.append("hdrain 40")
    cmds.append("hend")
    return cmds


@reg("C15")
def check_c15(tier, seed, replay=None, selftest=False):
    chk = verif.Check("C15", "model_checking", tier, seed)
    props = {"C15"}
    if replay:
        hash_replay(chk, replay, props)
        chk.cov.update({"states": 1, "transitions": 1, "traces_validated_against_impl": 1, "samples": [replay]})
        return chk.finish()
    exe = build.build_driver("hash", HASH_SRCS)
    model_check(chk, [("HashImpl", "HashImpl_C15.cfg", 12, 900)])
    rng = random.Random(seed * 31337 + 15)
    jobs = []
    for ai, alg in enumerate(gen_hash.FAMS):
        fams = gen_hash.FAMS[alg]
        if tier == "quick":
            # both crossings on every family and the dispatched entry (the padding code is per family: a rotation would miss
            # a family-local truncation of the length field)
            # three shapes of the 2^32 crossing (one maximal submit / a pending partial block followed by a maximal segment /
            # three medium segments): quick rotates them over the families with the seed, thorough runs all three everywhere
            plan = [(f, 29, None) for f in fams + ["isal"]] + [(f, 32, (seed + ai + i) % 3) for i, f in enumerate(fams + ["isal"])]
        else:
            plan = ([(f, 29, None) for f in fams + ["isal", "legacy"]] + [(f, 32, v) for f in fams + ["isal", "legacy"] for v in (0, 1, 2)]
                    + [(fams[(seed + ai) % len(fams)], 33, None), ("isal", 33, None)])
        for fam, crossing, var in plan:
            jobs.append(hash_job("c15-%s-%s-%d-%s" % (alg, fam, crossing, var), [c15_behaviour(rng, alg, fam, crossing, variant=var)]))
    # one lane holding a single segment of >= 2^31 bytes while the manager is full and turns over short jobs: every lane position
    # of the long job x the shortest job at lane distance +-{1, L/4, L/2} (the partners of the minimum-search reduction)
    for alg in gen_hash.FAMS:
        for fam in gen_hash.FAMS[alg]:
            L = gen_hash.lanes(alg, fam)
            if fam in ("base", "sb_sse4") or L < 2:
                continue
            pairs = sorted({(a, (a + sgn * d) % L) for a in range(L) for d in {1, max(1, L // 4), L // 2} for sgn in (1, -1)} - {(a, a) for a in range(L)})
            bs = [gen_hash.longlane_behaviour(rng, alg, fam, a, b) for a, b in pairs]
            if tier != "quick":
                bs += [gen_hash.longlane_behaviour(rng, alg, fam, a, b, drain=True) for a, b in rng.sample(pairs, 2)]
            jobs.append(hash_job("c15-longlane-%s-%s" % (alg, fam), bs))
    # every lane of a full manager holds one segment of >= 2^31 bytes (the same stream in each lane: TLC digests it once): the
    # minimum search and the per-lane length updates then work on values with the top bit set in every position
    for alg in gen_hash.FAMS:
        for fam in gen_hash.FAMS[alg] + ["isal"]:
            L = gen_hash.lanes(alg, fam)
            b, off = rng.randrange(2, 1 << 20), rng.randrange(1 << 20)
            ln = (1 << 31) + rng.choice([0, 37, gen_hash.BLOCK[alg] - 1, 4096 + 5])
            beh = ["hmgr %s %s %d" % (alg, fam, L)] + ["hsub %d 3 %d %d %d e" % (c, b, off, ln) for c in range(L)] + ["hdrain %d" % (L + 4), "hend"]
            jobs.append(hash_job("c15-alllong-%s-%s" % (alg, fam), [beh]))
    # the running total is per message: contexts abandoned mid-stream and restarted, reused after completion, refused in between
    for alg in gen_hash.FAMS:
        for fam in gen_hash.all_families(alg):
            jobs.append(hash_job("c15-reuse-%s-%s" % (alg, fam), [gen_hash.class_behaviour(rng, alg, fam, "reuse") for _ in range(2)]
                                 + [gen_hash.random_behaviour(rng, alg, fam, with_rejects=0.3)]))
    for alg in gen_hash.FAMS:
        a = rng.randrange(gen_hash.DISP_LANES[alg])
        jobs.append(hash_job("c15-longlane-%s-isal" % alg, [gen_hash.longlane_behaviour(rng, alg, "isal", a, (a + d) % gen_hash.DISP_LANES[alg])
                                                              for d in (1, gen_hash.DISP_LANES[alg] // 4, gen_hash.DISP_LANES[alg] // 2)]))
    outs = run_jobs(jobs, exe, "TraceHash")
    nb, ne = collect(chk, outs, props)
    _finish_traces(chk, jobs, outs, nb, ne,
                   "one behaviour = one stream whose running total crosses 2^29, 2^32 (incl. a single 2^32-1 byte submit) or 2^32+2^29 at "
                   "residues {0,1,B-P-1,B-P,B-1}; the caller's buffer is a 4 GiB virtual window repeating a 1 MiB pattern; TLC checks the "
                   "reported total_length (pair arithmetic) and the digest (streaming primitive over the same segments); both crossings run "
                   "on all 28 families + the dispatched entry in both tiers; thorough adds the legacy entry points and 2^32+2^29. "
                   "Long-lane behaviours: a full manager in which one lane holds one segment of >= 2^31 bytes (every lane position x "
                   "shortest job at the reduction-partner distances) keeps turning over short jobs; thorough also drains some")
    chk.cov["distinct_nontrivial"] = len(jobs)
    chk.assumptions += ["digest of >2^29-byte streams computed by Prim!DigestOfSegs (JDK MessageDigest / own SM3), cross-checked against the "
                        "TLA+ definition HashStd!Digest on short streams at setup", "periodic pattern data (period 2^20)"]
    return chk.finish()


# ------------------------------------------------------------------------------------------ wrapper layer
import gen_gate
GATE_SRCS = ["main.c", "core.c", "vcall.S", "drv_gate.c", "seams.S"]


def gate_wraps():
    return open(os.path.join(verif.VERIF, "harness", "seams.list")).read().split() + ["_aes_self_tests", "_sha_self_tests"]


def gate_entries(exe):
    d = verif.scratch("gatelist")
    rc, err = verif.run_driver(exe, "gatelist\n", os.path.join(d, "t.nd"))
    if rc:
        raise verif.MachineryError("gatelist failed: " + err)
    return [e for e in (json.loads(l) for l in open(os.path.join(d, "t.nd"))) if e.get("e") == "GateEntry"]


def exported_isal(variant):
    lib = build.build_lib(variant)
    return sorted({l.split()[2] for l in open(os.path.join(lib, "syms.txt")) if len(l.split()) == 3 and l.split()[1] == "T"
                   and l.split()[2].startswith("isal_")})


def gate_check(pid, tier, seed, replay, variant, mode, gen, rule, props):
    chk = verif.Check(pid, "model_checking", tier, seed)
    exe = build.build_driver("gate", GATE_SRCS, variant=variant, wraps=gate_wraps())
    env = {"MODE": mode}
    if replay:
        text = open(replay).read()
        lines = [x for x in text.splitlines() if x and not x.startswith("#")]
        if "# driver: self" in text:        # a concurrent fail-closed behaviour (concurrent_gate)
            sexe = build.build_driver("self", SELF_SRCS, variant="fips", wraps=SELF_WRAPS)
            outs = run_jobs([{"name": "replay", "behaviours": [lines], "driver": "self"}], sexe, "TraceSelfTest")
            collect(chk, outs, {"C17"}, marker="Mark")
        else:
            if "variant=fipsnsp" in text:
                exe = build.build_driver("gate", GATE_SRCS, variant="fipsnsp", wraps=gate_wraps())
            outs = run_jobs([{"name": "replay", "behaviours": [lines], "env": env}], exe, "TraceGate")
            collect(chk, outs, props, marker="Mark")
        chk.cov.update({"states": 1, "transitions": 1, "traces_validated_against_impl": 1, "samples": [replay]})
        return chk.finish()
    model_check(chk, [("ApiGateModel", "ApiGateModel.cfg", 8, 600)])
    listing = gate_entries(exe)
    entries = gen_gate.table(listing)
    known = {e[0] for e in entries}
    uncovered = [n for n in exported_isal(variant) if n not in known]
    chk.cov["exported_entry_points_without_driver"] = uncovered
    rng = random.Random(seed * 7 + int(pid[1:]))
    bs = gen(entries, rng, tier != "quick")
    nj = 12
    jobs = [{"name": "gate-%d" % i, "behaviours": bs[i::nj], "driver": "gate", "env": env} for i in range(nj)]
    outs = run_jobs(jobs, exe, "TraceGate")
    nb, ne = collect(chk, outs, props | {"SPEC"}, marker="Mark")
    if pid == "C16":
        compat_names_agree(chk)
        nb2, ne2 = legacy_agreement(chk, seed, tier)
        nb += nb2
        ne += ne2
    if pid == "C13":
        nb2, ne2 = concurrent_gate(chk)
        nb += nb2
        ne += ne2
        # the FIPS gate must not depend on the parameter checks being compiled in: FIPS_MODE=y SAFE_PARAM=n build, valid arguments
        # only (NULL arguments are the caller's problem there), every entry point in the failed / failing / passing states
        exe2 = build.build_driver("gate", GATE_SRCS, variant="fipsnsp", wraps=gate_wraps())
        b2 = []
        for entry, sig, alg in entries:
            v = " ".join(gen_gate.valid_vec(sig))
            b2.append(["stinj 0 0", "st 1", "gate %s %s" % (entry, v)])
            b2.append(["stinj 1 0", "st 2", "gate %s %s" % (entry, v), "gate %s %s" % (entry, v)])
            b2.append(["stinj 0 0", "st 2", "gate %s %s" % (entry, v)])
        j2 = [{"name": "gate-nsp-%d" % i, "behaviours": b2[i::6], "driver": "gate variant=fipsnsp", "env": env} for i in range(6)]
        o2 = run_jobs(j2, exe2, "TraceGate")
        nb3, ne3 = collect(chk, o2, props | {"SPEC"}, marker="Mark")
        nb += nb3
        ne += ne3
        chk.cov["fips_without_safe_param_pass"] = {"behaviours": nb3, "events": ne3}
    _finish_traces(chk, jobs, outs, nb, ne, rule)
    chk.cov["entries"] = len(entries)
    chk.assumptions += ["argument signatures (one letter per parameter) are transcribed from the public headers into harness/drv_gate.c",
                        "cryptographic work = an internal dispatched function entered (ld --wrap seams) or an argument object changed"]
    return chk.finish()


def concurrent_gate(chk):
    """fail-closed under concurrency: while one thread is held inside the self-tests, first calls of approved entry points
    (AES key expansion, SHA-1/256/512 manager init, GCM precompute, mixed) made by other threads must not succeed before the
    tests have finished and passed, and must report the verdict afterwards (verdict layer of TraceSelfTest)."""
    exe = build.build_driver("self", SELF_SRCS, variant="fips", wraps=SELF_WRAPS)
    bs = [["selfstall 6 500 0 0 m"], ["selfstall 6 400 1 0 m"], ["selfstall 6 400 0 -1 m"], ["selfstall 3 400 0 -1 a"],
          ["selfstall 3 400 1 0 b"], ["selfstall 3 400 0 0 c"], ["selfstall 3 400 1 0 g"], ["selfstall 3 400 0 -1 k"],
          # transient fault: the first run fails, any (illegitimate) re-run would pass - the failed verdict must stick
          ["selfstall 4 400 1 0 m 0 0"], ["selfstall 3 400 0 -1 t 0 0"], ["selfstall 3 400 2 0 k 0 0"]]
    jobs = [{"name": "gate-conc-%d" % i, "behaviours": bs[i::4], "driver": "self"} for i in range(4)]
    outs = run_jobs(jobs, exe, "TraceSelfTest")
    keep = {"success-before-self-tests-finished-and-passed", "threads-observe-different-verdicts", "unexpected-return-value"}
    for o in outs:
        o["result"]["viol"] = [v for v in o["result"]["viol"] if v["p"] != "C17" or v["what"] in keep]
    return collect(chk, outs, {"C17"}, marker="Mark")


def compat_names_agree(chk):
    """second clause of C16 at the source level: every deprecated spelling X that the v2.24 compatibility blocks of the public
    headers define as a constant must have the value of ISAL_X (compile-time assertions generated from the headers; the
    library itself is built with the compatibility blocks switched off, so no execution can see them)."""
    inc = os.path.join(build.REPO, "include")
    pairs, known = [], set()
    for h in sorted(os.listdir(inc)):
        if not h.endswith(".h"):
            continue
        text = open(os.path.join(inc, h)).read()
        known.update(re.findall(r"\b(ISAL_[A-Z0-9_]+)\b", text))
        inblk = False
        for line in text.splitlines():
            if "ifndef NO_COMPAT_ISAL_CRYPTO_API_2_24" in line:
                inblk = True
            elif inblk and line.startswith("#endif"):
                inblk = False
            elif inblk:
                m = re.match(r"#define\s+([A-Z][A-Z0-9_]*)\s+(ISAL_[A-Z0-9_]+)\s*$", line)
                if m:
                    pairs.append((h, m.group(1), m.group(2)))
    pairs = [(h, x, y) for h, x, y in pairs if "ISAL_" + x in known]
    d = verif.scratch("compat")
    hdrs = sorted({h for h, _, _ in pairs})

    def compile_asserts(name, items, fmt):
        src = os.path.join(d, name)
        with open(src, "w") as f:
            f.write("".join('#include <%s>\n' % h for h in hdrs))
            for h, x, y in items:
                f.write(fmt % (x, x, h, x))
        r = subprocess.run(["gcc", "-fsyntax-only", "-fmax-errors=0", "-I" + inc, src], stdout=subprocess.PIPE, stderr=subprocess.STDOUT)
        out = r.stdout.decode(errors="replace")
        failed = set(re.findall(r'static assertion failed: "([^"]+)"', out))
        errlines = {int(n) for n in re.findall(r"compat[a-z_]*\.c:(\d+):\d+: error", out)}
        return failed, errlines, len(hdrs)
    # constants first; what does not compile as an integer expression is a type name and is compared as a type
    failed, errlines, off = compile_asserts("compat.c", pairs, '_Static_assert((long long) (%s) == (long long) (ISAL_%s), "%s: %s");\n')
    types = [pairs[n - off - 1] for n in sorted(errlines) if 0 <= n - off - 1 < len(pairs) and ("%s: %s" % (pairs[n - off - 1][0], pairs[n - off - 1][1])) not in failed]
    failed2, errlines2, _ = compile_asserts("compat_types.c", types, '_Static_assert(__builtin_types_compatible_p(%s, ISAL_%s), "%s: %s");\n')
    if errlines2 - {len(hdrs) + 1 + i for i, t in enumerate(types) if ("%s: %s" % (t[0], t[1])) in failed2}:
        raise verif.MachineryError("compat assertions did not compile as constants or as types")
    chk.cov["compat_names_checked"] = {"constants": len(pairs) - len(types), "types": len(types)}
    for b in sorted(failed | failed2):
        chk.add_violation({"p": chk.prop, "what": "deprecated-name-differs-from-isal-name", "l": 0, "info": [b]}, replay_lines="# " + b + "\n")


def legacy_agreement(chk, seed, tier):
    """second clause of C16: for the same valid arguments each legacy entry point computes what its isal_ counterpart computes.
    Both spellings are driven over the functional call spaces and validated against the same deterministic specification;
    a functional violation on either spelling is a disagreement (or both are wrong, which the functional checks report too)."""
    rng = random.Random(seed * 16 + 5)
    k = 1 if tier == "quick" else 8
    FUNC = {"C01", "C02", "C03", "C04", "C05", "C06", "C07", "C09", "C10", "C11", "FAULT"}
    nb = ne = 0
    api = ["isal", "legacy"]
    hexe = build.build_driver("hash", HASH_SRCS)
    # with refused submits mixed in: a refusal must be reported by the wrapper's return code and leave the history usable
    # (first clause of C16 for the hash managers, whose argument errors surface through the context)
    sets = [(hexe, "TraceHash", hash_jobs(seed + 160, 12 * k, fams=api, rejects=0.25), "HReset")]
    aexe = build.build_driver("aes", AES_SRCS)
    aj = {}
    aj.update(gen_aes.gcm_oneshot_behaviours(rng, 14 * k, fams=api))
    aj.update(gen_aes.gcm_stream_jobs(rng, 3 * k, fams=api))
    aj.update(gen_aes.xts_jobs(rng, 8 * k, fams=api, maxlen=True))
    cj = gen_aes.cbc_jobs(rng, 4 * k)
    aj.update({n: b for n, b in cj.items() if "-isal-" in n or "-legacy-" in n})
    kj = gen_aes.kexp_jobs(rng, 3 * k)
    aj.update({n: b for n, b in kj.items() if "-isal-" in n or "-legacy-" in n})
    sets.append((aexe, "TraceAes", merge_jobs(aj), "Mark"))
    mexe = build.build_driver("mh", MH_SRCS, wraps=MH_WRAPS)
    mj = {}
    for alg in ("sha1", "sha256", "murmur"):
        mj.update(gen_mh.mh_jobs(rng, alg, 6 * k, fams=api))
    rj = gen_mh.rh_jobs(rng, 5 * k)
    mj.update({n: b for n, b in rj.items() if n.startswith("rh-disp-") and not n.endswith("-int")})
    sets.append((mexe, "TraceMh", merge_jobs(mj, key=lambda n: n, driver="mh"), "Mark"))
    for exe, spec, jobs, marker in sets:
        outs = run_jobs(jobs, exe, spec)
        for o in outs:
            nb += len(o["job"]["behaviours"])
            ne += o["result"]["events"]
            for v in o["result"]["viol"]:
                if v["p"] in FUNC:
                    bi = _behaviour_of_event(o["trace"], v["l"], marker)
                    beh = o["job"]["behaviours"][min(bi, len(o["job"]["behaviours"]) - 1)]
                    chk.add_violation({"p": "C16", "what": "legacy-and-isal-entry-points-disagree-with-the-specification", "l": v["l"],
                                       "info": [o["job"]["name"], v["p"], v["what"], v["info"]]},
                                      replay_lines="# driver: %s\n%s\n" % (o["job"].get("driver", "?"), "\n".join(beh)))
    chk.cov["legacy_agreement_behaviours"] = nb
    return nb, ne


@reg("C13")
def check_c13(tier, seed, replay=None, selftest=False):
    return gate_check("C13", tier, seed, replay, "fips", "fips", gen_gate.c13_behaviours,
                      "FIPS_MODE build; every exported isal_ entry point x {verdict passed, failed, not run with real tests / injected pass / "
                      "injected AES failure / injected SHA failure (-1) / both} x valid arguments, each first call followed by a second one; "
                      "XTS entry points also with data key = tweak key (raw and pre-expanded: schedules of the same key, decryption schedule "
                      "for the dec entry points); TLC validates each event against ApiGate!OutcomeOkFips and FailClosed", {"C13"})


@reg("C16")
def check_c16(tier, seed, replay=None, selftest=False):
    return gate_check("C16", tier, seed, replay, "def", "plain", gen_gate.c16_behaviours,
                      "default build (SAFE_PARAM); every exported isal_ entry point x {all valid, every (quick: sampled multi-element) subset "
                      "of pointer arguments NULL with the remaining pointers aimed at an inaccessible page, boundary values of length / tag "
                      "length / window / flags}; TLC validates return code, absence of side effects and of any dereference against "
                      "ApiGate!OutcomeOkPlain; legacy/isal_ agreement is carried by the functional checks C01-C10, which drive both spellings "
                      "against the same deterministic spec", {"C16"})


# ------------------------------------------------------------------------------------------ C17 self-test protocol
import gen_self
SELF_SRCS = ["main.c", "core.c", "vcall.S", "drv_self.c"]
SELF_WRAPS = ["asm_check_self_tests_status", "asm_set_self_tests_status", "_aes_self_tests", "_sha_self_tests"]
EXPECTED_SHAPE = {"asm_check_self_tests_status": "LXCL", "asm_set_self_tests_status": "S"}


def tlc_selftest_schedules(n, num, depth, seed):
    """spec -> code: behaviours of SelfTest drawn by TLC's simulator, printed as JSON from an always-true invariant"""
    cfg = os.path.join(verif.SPEC, "SelfTestSim_%d.cfg" % n)
    ts = ", ".join("t%d" % i for i in range(1, n + 1))
    open(cfg, "w").write("SPECIFICATION HSpec\nCONSTANTS\n  Threads = {%s}\n  Calls = 2\n  Outcomes = {\"pass\", \"fail\"}\n"
                         "INVARIANT DumpAtEnd\nCHECK_DEADLOCK FALSE\n" % ts)
    rc, out, dt = verif.tlc("SelfTestSim", cfg="SelfTestSim_%d.cfg" % n, workers=4, timeout=300,
                            simulate="num=%d" % num, extra=["-depth", str(depth), "-seed", str(seed)])
    cmds = []
    for line in out.splitlines():
        if line.startswith("\"BEH "):
            try:
                rec = json.loads(json.loads(line)[4:])
            except Exception:
                continue
            hist = [(int(h[0][1:]) - 1, h[1], h[2]) for h in rec["h"]]
            cmds.append(gen_self.from_tlc_history(hist, n, 2, rec["o"]))
    return cmds


@reg("C17")
def check_c17(tier, seed, replay=None, selftest=False):
    chk = verif.Check("C17", "model_checking", tier, seed)
    props = {"C17"}
    exe = build.build_driver("self", SELF_SRCS, variant="fips", wraps=SELF_WRAPS)
    mapcmd, shapes = gen_self.instr_map(exe)
    if shapes != EXPECTED_SHAPE:
        chk.drift.append("status function accesses the shared word in a different shape than SelfTest models: %s" % json.dumps(shapes))
    if replay:
        lines = [x for x in open(replay).read().splitlines() if x and not x.startswith("#")]
        if "self generic" in open(replay).read():
            gobj = build.compile_repo_file("fips/self_tests_generic.c", ["-DFIPS_MODE", "-Disal_self_tests=isal_self_tests_generic",
                                           "-D_aes_self_tests=gen_aes_self_tests", "-D_sha_self_tests=gen_sha_self_tests"], "selfgen")
            exe = build.build_driver("selfgen", SELF_SRCS, variant="fips", wraps=SELF_WRAPS, extra=[gobj])
        outs = run_jobs([{"name": "replay", "behaviours": [[mapcmd] + [x for x in lines if not x.startswith("selfmap")]]}], exe, "TraceSelfTest")
        collect(chk, outs, props, marker="SReset")
        chk.cov.update({"states": 1, "transitions": 1, "traces_validated_against_impl": 1, "samples": [replay]})
        return chk.finish()
    model_check(chk, [("SelfTest", "SelfTest_2.cfg", 8, 600), ("SelfTest", "SelfTest_3.cfg", 8, 600),
                      ("SelfTestGeneric", "SelfTestGeneric.cfg", 8, 600)] +
                ([("SelfTest", "SelfTest_4.cfg", 8, 900)] if tier != "quick" else []))
    rng = random.Random(seed * 977 + 17)
    beh = gen_self.systematic(2) + gen_self.randoms(rng, 150 if tier == "quick" else 3000)
    if tier != "quick":
        beh += gen_self.systematic(3) + gen_self.two_preemptions()
    ntlc = 0
    for n in (2, 3):
        cmds = tlc_selftest_schedules(n, 40 if tier == "quick" else 600, 60, seed)
        ntlc += len(cmds)
        beh += cmds
    chk.cov["tlc_generated_behaviours_replayed"] = ntlc
    # free-running long-stall behaviours: the runner is held inside the AES stage while the others really spin (millions of
    # polls - out of reach of the stepped scheduler); judged by the verdict layer of TraceSelfTest only. Spread over the jobs
    # so that the stalls overlap in wall-clock time.
    stall = 2500 if tier == "quick" else 8000
    stalls = ["selfstall 4 %d 0 0 t" % stall, "selfstall 3 300 1 0 k", "selfstall 3 300 0 -1 t", "selfstall 2 200 -9 -9 t",
              "selfstall 3 %d 0 -1 k" % stall, "selfstall 8 400 0 0 k", "selfstall 6 600 0 0 m", "selfstall 6 600 1 0 m",
              "selfstall 3 500 0 -1 a", "selfstall 3 500 0 0 g", "selfstall 4 400 1 0 m 0 0", "selfstall 3 400 0 -1 t 0 0"]
    chk.cov["free_running_stall_behaviours"] = stalls
    beh = stalls + beh
    nj = 14
    jobs = [{"name": "self-%d" % i, "behaviours": [[mapcmd]] + [[b] for b in beh[i::nj]], "driver": "self", "prelude": mapcmd + "\n"}
            for i in range(nj)]
    outs = run_jobs(jobs, exe, "TraceSelfTest")
    nb, ne = collect(chk, outs, props | {"SPEC"}, marker="Mark")
    # the portable implementation of the protocol (fips/self_tests_generic.c, C11 atomics, non-x86 builds): compiled on its own
    # and driven by free-running behaviours; its status word is a function-local static, so one process per behaviour
    gobj = build.compile_repo_file("fips/self_tests_generic.c", ["-DFIPS_MODE", "-Disal_self_tests=isal_self_tests_generic",
                                   "-D_aes_self_tests=gen_aes_self_tests", "-D_sha_self_tests=gen_sha_self_tests"], "selfgen")
    gexe = build.build_driver("selfgen", SELF_SRCS, variant="fips", wraps=SELF_WRAPS, extra=[gobj])
    gb = ["selfstall 4 800 0 0 G", "selfstall 4 500 1 0 G", "selfstall 4 500 0 -1 G", "selfstall 5 500 1 0 G 0 0", "selfstall 3 300 0 0 G",
          "selfstall 8 600 0 0 G", "selfstall 2 300 0 -1 G 0 0", "selfstall 6 400 2 0 G"]
    gjobs = [{"name": "selfgen-%d" % i, "behaviours": [[b]], "driver": "self generic"} for i, b in enumerate(gb)]
    gouts = run_jobs(gjobs, gexe, "TraceSelfTest")
    b2, e2 = collect(chk, gouts, props | {"SPEC"}, marker="Mark")
    nb, ne = nb + b2, ne + e2
    chk.cov["generic_implementation_behaviours"] = gb
    _finish_traces(chk, jobs, outs, nb, ne,
                   "one behaviour = N (2..4) threads x 1..2 calls of isal_self_tests()/isal_aes_keyexp_128() executed under a schedule that "
                   "says which thread performs its next access to the status word (instruction-granular control through the trap flag, no "
                   "source hook); schedules: every single-preemption point of thread 0 (x 4 injected outcomes), random and bursty schedules, "
                   "and behaviours drawn by TLC's simulator from SelfTest (spec -> code); thorough adds 3-thread and two-preemption sweeps")
    chk.cov["distinct_nontrivial"] = len(set(beh))
    chk.assumptions += ["one thread runs at a time (sequentially consistent interleavings; x86-TSO reorderings of the plain store are not explored)",
                        "self-test outcomes are injected through link seams on _aes_self_tests/_sha_self_tests"]
    return chk.finish()


# ------------------------------------------------------------------------------------------ C12 dispatch
import gen_disp
DISP_SRCS = ["main.c", "core.c", "vcall.S", "drv_disp.c"]


@reg("C12")
def check_c12(tier, seed, replay=None, selftest=False):
    chk = verif.Check("C12", "model_checking", tier, seed)
    props = {"C12"}
    exe = build.build_driver("disp", DISP_SRCS)
    if replay:
        lines = [x for x in open(replay).read().splitlines() if x and not x.startswith("#")]
        outs = run_jobs([{"name": "replay", "behaviours": [lines]}], exe, "TraceDispatch")
        collect(chk, outs, props, marker="Mark")
        chk.cov.update({"states": 1, "transitions": 1, "traces_validated_against_impl": 1, "samples": [replay]})
        return chk.finish()
    cfgs = gen_disp.configs(collapse=(tier == "quick"))
    # quick: alternate configurations run with the unnamed CPUID bits all set ("noise"); thorough: both ways
    beh = []
    for i, c in enumerate(cfgs):
        for noise in ((i % 2 == 1,) if tier == "quick" else (False, True)):
            beh.append([gen_disp.vcpu_cmd(c, noise), "bindall"] + (["bindtwice"] if i % 16 == 0 else []))
    nj = 14
    jobs = [{"name": "disp-%d" % i, "behaviours": beh[i::nj], "driver": "disp"} for i in range(nj)]
    outs = run_jobs(jobs, exe, "TraceDispatch")
    nb, ne = collect(chk, outs, props | {"SPEC"}, marker="Mark")
    dispatch_model(chk, exe, tier)
    isa_part(chk, exe, tier)
    _finish_traces(chk, jobs, outs, nb, ne,
                   "one behaviour = one architecturally consistent CPU/OS configuration (CPUID leaf 1/7 feature bits the resolvers test + "
                   "XCR0 state bits); the library's own 64 resolvers are executed under the trap flag with CPUID/XGETBV answered from the "
                   "configuration; TLC checks every binding against Dispatch (family requirements within what the configuration makes "
                   "executable, one family per shared object, second resolution identical); quick collapses the AVX-512 group-1/group-2 "
                   "subsets to {all, each one missing, first only, none}, thorough enumerates every subset")
    chk.cov["configurations"] = len(cfgs)
    chk.cov["distinct_nontrivial"] = len(cfgs)
    chk.cov["exhaustive"] = tier != "quick"
    chk.assumptions += ["extension bits no resolver tests (AES-NI, PCLMULQDQ, SSSE3, POPCNT, BMI2) are outside the property's quantifier and taken as present",
                        "units without a plain-C fall-back (AES) document SSE4.1 as their minimum"]
    return chk.finish()


def dispatch_model(chk, exe, tier):
    """Exhaustive TLC run of the transcribed resolver ladders (DispatchLadder) over every consistent configuration, with the
    entry -> (macro, candidates) table taken from the sources of the working tree.  A counterexample is a configuration; it is
    reported only if the library's own resolver, run for that configuration, is rejected by TraceDispatch as well - otherwise the
    transcription is what is off and the line is MODEL-DRIFT."""
    rc, out, dt = verif.tlc("DispatchModel", env={"DTABLE": verif.dispatch_table_file(), "DFULL": "1" if tier != "quick" else "0"},
                            workers=WORKERS, timeout=1500)
    gen, dist = verif.tlc_stats(out)
    chk.cov["ladder_model"] = {"spec": "DispatchModel", "configurations": dist, "tlc_s": round(dt, 1), "rc": rc,
                               "invariants": ["LadderBindsOnlyExecutableCode", "SharedObjectsOneFamily"]}
    if rc == 0:
        return
    m = re.search(r"Invariant (\w+) is violated", out)
    c = re.search(r"cfg = \{([^}]*)\}", out)
    if not m or not c:
        raise verif.MachineryError("DispatchModel failed:\n" + out[-3000:])
    cfg = [x.strip().strip('"') for x in c.group(1).split(",") if x.strip()]
    beh = [[gen_disp.vcpu_cmd(cfg, False), "bindall"]]
    o = run_jobs([{"name": "ladder-cex", "behaviours": beh, "driver": "disp"}], exe, "TraceDispatch")
    real = [v for v in o[0]["result"]["viol"] if v["p"] == "C12"]
    if real:
        collect(chk, o, {"C12"}, marker="Mark")
    else:
        chk.drift.append("ladder model violates %s for %s but the library's resolver does not" % (m.group(1), sorted(cfg)))


def isa_part(chk, exe, tier):
    try:
        import isa_req
    except ImportError:
        return
    isa_req.check(chk, exe, tier)


# ------------------------------------------------------------------------------------------ machine contracts
JOB_SRCS = ["main.c", "core.c", "vcall.S", "drv_job.c"]
def machine_mix(seed, tier, with_dump=False, small=False):
    """A broad mix of behaviours over every driver: list of (exe, trace_spec, jobs). The machine-level contracts
    (Machine.tla) are conjoined to every action of every trace spec, so every event of the mix is an observation."""
    rng = random.Random(seed * 2654435761 % (1 << 31))
    k = 1 if tier == "quick" else 12
    out = []
    hexe = build.build_driver("hash", HASH_SRCS)
    out.append((hexe, "TraceHash", hash_jobs(seed + 3, (6 if small else 10) * k, rejects=0.1)))
    aexe = build.build_driver("aes", AES_SRCS)
    aj = {}
    aj.update(gen_aes.gcm_oneshot_behaviours(rng, (4 if small else 8) * k))
    aj.update(gen_aes.gcm_stream_jobs(rng, (3 if small else 5) * k))
    aj.update(gen_aes.xts_jobs(rng, (12 if small else 16) * k))
    aj.update(gen_aes.cbc_jobs(rng, (4 if small else 6) * k))
    aj.update(gen_aes.kexp_jobs(rng, 4 * k))
    ajobs = merge_jobs(aj)
    if with_dump:
        for j in ajobs:
            j["behaviours"] = [["dump 1"]] + j["behaviours"]
    out.append((aexe, "TraceAes", ajobs))
    jexe = build.build_driver("job", JOB_SRCS)
    out.append((jexe, "TraceJob", gen_hash.job_jobs(rng, (4 if small else 8) * k)))
    mexe = build.build_driver("mh", MH_SRCS, wraps=MH_WRAPS)
    mj = {}
    for alg in ("sha1", "sha256", "murmur"):
        mj.update(gen_mh.mh_jobs(rng, alg, (3 if small else 5) * k))
    mj.update(gen_mh.rh_jobs(rng, (4 if small else 6) * k))
    out.append((mexe, "TraceMh", merge_jobs(mj, key=lambda n: n, driver="mh")))
    return out


def run_mix(chk, mix, props, extra_env=None):
    nb = ne = 0
    alljobs, allouts = [], []
    for exe, spec, jobs in mix:
        if extra_env:
            for j in jobs:
                j.setdefault("env", {}).update(extra_env)
        outs = run_jobs(jobs, exe, spec)
        b, e = collect(chk, outs, props, marker="HReset" if spec == "TraceHash" else "JReset" if spec == "TraceJob" else "Mark")
        nb += b
        ne += e
        alljobs += jobs
        allouts += outs
    return alljobs, allouts, nb, ne


def entry_points_called(outs):
    """library symbols the drivers called through the trampoline (each trace ends with a Mark listing them)"""
    seen = set()
    for o in outs:
        with open(o["trace"]) as f:
            for line in f:
                if '"id":"called"' in line:
                    try:
                        seen.update(json.loads(line)["syms"])
                    except Exception:
                        pass
    return seen


def machine_check(pid, tier, seed, replay, props, rule, with_dump=False, extra=None):
    chk = verif.Check(pid, "exploration", tier, seed)
    if replay:
        lines = [x for x in open(replay).read().splitlines() if x and not x.startswith("#")]
        hdr = open(replay).read()
        drv = "hash" if "hmgr" in hdr else "mh" if ("mhinit" in hdr or "rhinit" in hdr) else "gate" if "gate " in hdr else "aes"
        exe = {"hash": lambda: build.build_driver("hash", HASH_SRCS), "aes": lambda: build.build_driver("aes", AES_SRCS),
               "mh": lambda: build.build_driver("mh", MH_SRCS, wraps=MH_WRAPS),
               "gate": lambda: build.build_driver("gate", GATE_SRCS, wraps=gate_wraps())}[drv]()
        spec = {"hash": "TraceHash", "aes": "TraceAes", "mh": "TraceMh", "gate": "TraceGate"}[drv]
        job = hash_job("replay", [lines]) if drv == "hash" else {"name": "replay", "behaviours": [lines], "env": {"MODE": "plain"}}
        outs = run_jobs([job], exe, spec)
        collect(chk, outs, props, marker="HReset" if drv == "hash" else "Mark")
        chk.cov.update({"evaluations": 1, "distinct_nontrivial": 2, "rule": "replay", "samples": [replay]})
        return chk.finish()
    mix = machine_mix(seed * 13 + int(pid[1:]), tier, with_dump=with_dump)
    if extra:
        mix += extra(seed, tier)
    if pid in ("C19", "C08"):
        # the same call spaces once more with every library call single-stepped (trap flag, empty SIGTRAP handler on the interrupted
        # stack): a signal frame is built below the red zone at every instruction boundary, so a callee that keeps saved registers
        # or scratch data below rsp-128, or reloads them from a frame it has already dropped, is exposed deterministically
        smix = machine_mix(seed * 17 + 5 + int(pid[1:]), tier, small=True)
        for exe, spec, jobs in smix:
            if spec == "TraceJob":
                continue
            sj = []
            for j in jobs:
                take = j["behaviours"][:(2 if tier == "quick" else 12)]
                if take:
                    sj.append(dict(j, name="step-" + j["name"], behaviours=[["stepmode 1"] + take[0]] + take[1:], prelude="stepmode 1\n"))
            mix.append((exe, spec, sj))
    jobs, outs, nb, ne = run_mix(chk, mix, props)
    if pid == "C19":
        # epilogues differ when the scrubbing code is configured out: the same contracts on the SAFE_DATA=n build, every family
        vr = random.Random(seed * 7 + 19)
        for unit in ("aes", "hash", "mh"):
            fips_legacy_pass(chk, unit, vr, props, tier, variant="nosafe", allfams=True)
    eps = entry_points_called(outs)
    chk.cov["evaluations"] = ne
    chk.cov["distinct_nontrivial"] = len({hashlib.sha1("\n".join(b).encode()).hexdigest() for j in jobs for b in j["behaviours"]})
    chk.cov["rule"] = rule
    chk.cov["samples"] = [{"job": j["name"], "behaviour": j["behaviours"][-1][:6]} for j in jobs[:4]]
    chk.cov["distinct_library_entry_points_called"] = len(eps)
    if pid == "C19":
        lib = build.build_lib("def")
        T = sorted({l.split()[2] for l in open(os.path.join(lib, "syms.txt")) if len(l.split()) == 3 and l.split()[1] == "T"})
        T = [t for t in T if "slver" not in t and t != "TABLE"]
        chk.cov["exported_text_symbols"] = len(T)
        chk.cov["entry_points_not_called_by_any_driver"] = [t for t in T if t not in eps][:400]
    chk.cov["traces_validated_against_impl"] = nb
    chk.assumptions += ["observations are made by the call trampoline harness/vcall.S on the executions the specifications' call spaces select; "
                        "this is exploration, not proof", "host CPU executes every family"]
    return chk.finish()


def gate_mix(seed, tier):
    exe = build.build_driver("gate", GATE_SRCS, variant="def", wraps=gate_wraps())
    entries = gen_gate.table(gate_entries(exe))
    rng = random.Random(seed)
    bs = gen_gate.c16_behaviours(entries, rng, False)
    nj = 6
    return [(exe, "TraceGate", [{"name": "gate-%d" % i, "behaviours": bs[i::nj], "driver": "gate", "env": {"MODE": "plain"}} for i in range(nj)])]


@reg("C19")
def check_c19(tier, seed, replay=None, selftest=False):
    return machine_check("C19", tier, seed, replay, {"C19"},
                         "every library call of every behaviour goes through the trampoline: callee-saved registers hold per-call canaries, "
                         "MXCSR/x87 CW/DF are compared, canary words sit above the frame; behaviours = the call spaces of C01-C16 (every family, "
                         "length class, manager state class, error return) + the 64 resolvers (C12 check) + the self-test protocol (C17 check)",
                         extra=gate_mix)


@reg("C08")
def check_c08(tier, seed, replay=None, selftest=False):
    def cbc0(seed, tier):
        rng = random.Random(seed)
        exe = build.build_driver("aes", AES_SRCS)
        bs = []
        for fam, dirn in [(f, "enc") for f in gen_aes.CBC_ENC + ["isal", "legacy"]] + [(f, "dec") for f in gen_aes.CBC_DEC + ["isal", "legacy"]]:
            for bits in (128, 192, 256):
                bs.append([gen_aes.cbc_call(rng, fam, bits, dirn, 0)])
        return [(exe, "TraceAes", [{"name": "cbc-len0", "behaviours": bs, "driver": "aes"}])]
    return machine_check("C08", tier, seed, replay, {"C08", "FAULT"},
                         "every buffer of every call is carved from its own mapping: end-flush against an inaccessible page, start-flush after "
                         "one, or at a chosen alignment between canaries; inputs are checksummed before/after; hash segments are unmapped as soon "
                         "as the job is handed back; behaviours = the call spaces of C01-C10 (every residue of every vector-width tail) + "
                         "zero-length CBC", extra=cbc0)


@reg("C14")
def check_c14(tier, seed, replay=None, selftest=False):
    chk = verif.Check("C14", "exploration", tier, seed)
    props = {"C14"}
    exe = build.build_driver("aes", AES_SRCS)
    if replay:
        lines = [x for x in open(replay).read().splitlines() if x and not x.startswith("#")]
        if "dump 1" not in lines:
            lines = ["dump 1"] + lines
        outs = run_jobs([{"name": "replay", "behaviours": [lines]}], exe, "TraceAes")
        collect(chk, outs, props, marker="Mark")
        chk.cov.update({"evaluations": 1, "distinct_nontrivial": 2, "rule": "replay", "samples": [replay]})
        return chk.finish()
    rng = random.Random(seed * 101 + 14)
    k = 1 if tier == "quick" else 10
    aj = {}
    aj.update(gen_aes.gcm_oneshot_behaviours(rng, 6 * k))
    aj.update(gen_aes.gcm_stream_jobs(rng, 3 * k))
    aj.update(gen_aes.xts_jobs(rng, 24 * k, short=False))
    aj.update(gen_aes.cbc_jobs(rng, 6 * k))
    aj.update(gen_aes.kexp_jobs(rng, 4 * k))
    jobs = merge_jobs(aj)
    for j in jobs:
        j["behaviours"] = [["dump 1"]] + j["behaviours"]
        j["prelude"] = "dump 1\n"
    outs = run_jobs(jobs, exe, "TraceAes")
    nb, ne = collect(chk, outs, props, marker="Mark")
    chk.cov["evaluations"] = ne
    chk.cov["distinct_nontrivial"] = len({hashlib.sha1("\n".join(b).encode()).hexdigest() for j in jobs for b in j["behaviours"]})
    chk.cov["rule"] = ("default SAFE_DATA build; every AES entry point x family x length class of the C02/C03/C04/C07 call spaces; after each call "
                       "the trampoline dumps zmm0-31 and every 16-byte granule of the 64 KiB below the call that no longer holds the prefill; TLC "
                       "computes the secrets from the spec (FIPS-197 round keys enc+dec of every key, raw key halves, GHASH key H, every 16-byte "
                       "word of the caller's key_data, E(K2, tweak)) and searches the dump at every byte offset")
    chk.cov["samples"] = [{"job": j["name"], "behaviour": j["behaviours"][-1]} for j in jobs[:3]]
    chk.cov["traces_validated_against_impl"] = nb
    chk.assumptions += ["constant (all-equal-byte) secrets are ignored", "mask registers k0-7 are not scanned (they cannot hold 16 key bytes)"]
    return chk.finish()


@reg("C20")
def check_c20(tier, seed, replay=None, selftest=False):
    chk = verif.Check("C20", "exploration", tier, seed)
    props = {"C20"}
    mix = machine_mix(seed * 29 + 20, tier, small=True)
    if replay:
        lines = [x for x in open(replay).read().splitlines() if x and not x.startswith("#") and not x.startswith("hidden ")]
        hdr = "\n".join(lines)
        drv = "hash" if "hmgr" in hdr else "mh" if ("mhinit" in hdr or "rhinit" in hdr) else "aes"
        exe, spec = {"hash": (mix[0][0], "TraceHash"), "aes": (mix[1][0], "TraceAes"), "mh": (mix[2][0], "TraceMh")}[drv]
        mix = [(exe, spec, [hash_job("replay", [lines]) if drv == "hash" else {"name": "replay", "behaviours": [lines]}])]
    if not replay:
        # long calls (milliseconds inside one library call): the population the signal storm of the second execution can hit
        rng = random.Random(seed * 131 + 20)
        lj = {}
        for alg in ("sha1", "sha256", "murmur"):
            for fam in gen_mh.MH_FAMS[:5]:
                total = (2 << 20) + rng.randrange(5000)
                lj["mhlong-%s-%s" % (alg, fam)] = [gen_mh.mh_behaviour(rng, alg, fam, total, [total - 777, 777])]
        mix.append((mix[3][0], "TraceMh", merge_jobs(lj, key=lambda n: "-".join(n.split("-")[:2]), driver="mh")))
        hl = []
        for alg in gen_hash.FAMS:
            for fam in gen_hash.FAMS[alg]:
                L = gen_hash.lanes(alg, fam)
                b = ["hmgr %s %s %d" % (alg, fam, L)]
                for c in range(L):
                    b.append("hsub %d 3 %d %d %d e" % (c, 7000 + c, c * 4099, (1 << 20) + 64 * c + c))
                b += ["hdrain %d" % (L + 4), "hend"]
                hl.append(hash_job("hlong-%s-%s" % (alg, fam), [b]))
        mix.append((mix[0][0], "TraceHash", hl))
    seeds = (1000 + seed, 2000 + 7 * seed)
    nb = ne = 0
    alljobs = []

    def twin(args):
        exe, spec, job = args
        d = verif.scratch("twin-" + job["name"])
        text = ""
        for i, b in enumerate(job["behaviours"]):
            text += "mark %d\n" % i + "\n".join(b) + "\n"
        traces = []
        for k, hs in enumerate(seeds):
            tr = os.path.join(d, "t%d.ndjson" % k)
            # the second execution also runs under a storm of asynchronous signals (frames land below the red zone of whatever
            # stack is current, at instants unrelated to the behaviour)
            rc, err = verif.run_driver(exe, "hidden %d\n" % hs + ("storm 61\n" if k == 1 else "") + text, tr)
            if rc:
                raise verif.MachineryError("driver failed in twin run: " + err[-500:])
            traces.append(tr)
        # each execution against the deterministic spec of its domain ...
        res = [verif.validate_trace(spec, t, env=job.get("env")) for t in traces]
        # ... and the twin property itself
        tw = verif.validate_trace("TraceTwin", traces[0], env={"TRACE2": traces[1]})
        return {"job": job, "result": tw, "trace": traces[0], "single": res, "traces": traces}
    work = [(exe, spec, j) for exe, spec, jobs in mix for j in jobs]
    with ThreadPoolExecutor(max_workers=WORKERS) as ex:
        outs = list(ex.map(twin, work))
    for o in outs:
        nb += len(o["job"]["behaviours"])
        ne += o["result"]["events"]
        alljobs.append(o["job"])
        # the single executions: a call that faults on valid input counts here as in every functional check (whether and where
        # it faults is routinely a function of hidden inputs); everything else they violate belongs to the other checks
        collect(chk, [{"job": o["job"], "result": r, "trace": t} for r, t in zip(o["single"], o["traces"])], set(),
                marker="HReset" if o["job"].get("driver", "hash") == "hash" and "MAXN" in (o["job"].get("env") or {}) else "Mark")
    collect(chk, outs, props, marker="Mark")
    chk.cov["evaluations"] = ne
    chk.cov["distinct_nontrivial"] = len({hashlib.sha1("\n".join(b).encode()).hexdigest() for j in alljobs for b in j["behaviours"]})
    chk.cov["rule"] = ("every behaviour of the hash / AES / multi-hash / rolling-hash call spaces is executed twice with different hidden-input "
                       "seeds: caller-saved, vector and mask registers and arithmetic flags at entry, the 64 KiB below the stack pointer, "
                       "output-buffer prefill, and the bytes of manager / context / key-data / state objects before the API initialises "
                       "them; both executions are validated against the deterministic spec and TraceTwin requires every observable field "
                       "of every event (outputs, digests, tags, offsets, return codes, status words) to be identical")
    chk.cov["samples"] = [{"job": j["name"], "behaviour": j["behaviours"][-1][:6]} for j in alljobs[:3]]
    chk.cov["paired_executions"] = nb
    chk.assumptions += ["hidden inputs are varied through the trampoline and the drivers' object allocation; differences in addresses "
                        "(ASLR of the guarded mappings) are present in both executions alike"]
    return chk.finish()


# ------------------------------------------------------------------------------------------ C18 shared state
ALL_SRCS = ["main.c", "core.c", "vcall.S", "drv_hash.c", "drv_aes.c", "drv_mh.c", "drv_disp.c"]
FUNCTIONAL = {"C01", "C02", "C03", "C04", "C05", "C06", "C07", "C09", "C10", "C11", "C15", "FAULT", "C08"}


def thread_files(rng, n, rounds):
    """n command files (one per thread), each on its own objects, all through the dispatched entry points"""
    files = []
    kinds = ["hash", "gcm", "rh", "gcm", "xts", "rh", "gcm", "mh", "cbc", "hash", "rh", "gcm"]
    for t in range(n):
        kind = kinds[t % len(kinds)]
        fam = "isal" if t % 3 else "legacy"
        if kind == "hash":
            alg = ["sha256", "sha1", "md5", "sha512", "sm3"][t % 5]
            bs = [gen_hash.random_behaviour(rng, alg, fam) for _ in range(rounds)]
            spec = "TraceHash"
            maxn = max([int(l.split()[3]) for b in bs for l in b if l.startswith("hmgr ")] + [1])
            env = {"MAXN": str(maxn)}
        elif kind == "gcm":
            bs = [gen_aes.gcm_stream_behaviour(rng, fam, rng.choice([128, 256]), rng.choice(["enc", "dec"]), 0, gen_aes.gcm_stream_pieces(rng, 0))
                  for _ in range(rounds * 2)]
            spec, env = "TraceAes", {}
        elif kind == "xts":
            bs = [[gen_aes.xts_call(rng, fam, rng.choice([128, 256]), rng.choice(["enc", "dec"]), rng.choice([0, 1]), gen_aes.pick_xts_len(rng))]
                  for _ in range(rounds * 4)]
            spec, env = "TraceAes", {}
        elif kind == "cbc":
            bs = [[gen_aes.cbc_call(rng, fam, rng.choice([128, 192, 256]), rng.choice(["enc", "dec"]), rng.choice(gen_aes.cbc_lens()))] for _ in range(rounds * 3)]
            bs += [["kexp %s %d %d %d e" % (fam, rng.choice([128, 192, 256]), rng.randrange(2, 1 << 20), rng.randrange(1 << 20))] for _ in range(rounds)]
            spec, env = "TraceAes", {}
        elif kind == "mh":
            bs = [gen_mh.mh_behaviour(rng, rng.choice(["sha1", "sha256", "murmur"]), fam) for _ in range(rounds * 2)]
            spec, env = "TraceMh", {}
        else:
            bs = [gen_mh.rh_behaviour(rng, fam, "disp") for _ in range(rounds)]
            spec, env = "TraceMh", {}
        files.append({"name": "thr%d-%s" % (t, kind), "behaviours": bs, "spec": spec, "env": env})
    return files


@reg("C18")
def check_c18(tier, seed, replay=None, selftest=False):
    chk = verif.Check("C18", "exploration", tier, seed)
    exe_all = build.build_driver("all", ALL_SRCS, wraps=MH_WRAPS)
    if replay:
        return machine_check("C18", tier, seed, replay, {"C18"}, "replay")
    # (o) design model of the only legitimate shared write: racing first calls bind correctly iff the slot is published by one store
    model_check(chk, [("BindRace", "BindRace.cfg", 4, 300)])
    rc_t, out_t, _ = verif.tlc("BindRace", cfg="BindRace_torn.cfg", workers=2, timeout=300)
    if "Invariant NoTornJump is violated" not in out_t:
        raise verif.MachineryError("BindRace_torn must violate NoTornJump (model is vacuous otherwise):\n" + out_t[-1500:])
    chk.cov["bind_race_model"] = "BindRace: 3 threads, one-store publication: NoTornJump, BoundAtEnd, SlotMonotone, AllReturn hold; two-store variant violates NoTornJump (non-vacuity)"
    # (i) every event of the single-threaded mix: writable statics change only by a first-call binding
    mix = machine_mix(seed * 31 + 18, tier, small=True)
    dexe = build.build_driver("disp", DISP_SRCS)
    dcfgs = gen_disp.configs(collapse=True)
    dsel = dcfgs[::max(1, len(dcfgs) // (60 if tier == "quick" else 600))]
    # plus the configurations in which the longest resolver paths run: everything present, and everything but one group-2 bit
    full = [c for c in dcfgs if {"avx512f", "vaes", "vpclmulqdq", "gfni", "avx512_vbmi2", "x_hi16_zmm", "sha"} <= set(c)]
    dsel = (full[:6] + [c for c in dcfgs if "avx512f" in c and "x_hi16_zmm" in c and "vaes" not in c][:3] + dsel)
    mix.append((dexe, "TraceDispatch", [{"name": "disp-c18", "behaviours": [[gen_disp.vcpu_cmd(c, i % 2 == 1), "bindall"] for i, c in enumerate(dsel)],
                                          "driver": "disp"}]))
    jobs, outs, nb, ne = run_mix(chk, mix, {"C18"})
    # (ii) N threads, each on its own objects, simultaneous first calls of the dispatched entry points
    rng = random.Random(seed * 77 + 18)
    nthreads = 8 if tier == "quick" else 16
    rounds = 3 if tier == "quick" else 12
    reps = 6 if tier == "quick" else 40
    interference = 0
    thr_events = 0
    for rep in range(reps):
        files = thread_files(rng, nthreads, rounds)
        d = verif.scratch("par%d" % rep)
        args = []
        for i, f in enumerate(files):
            cp = os.path.join(d, "c%d.cmd" % i)
            tp = os.path.join(d, "t%d.ndjson" % i)
            with open(cp, "w") as fh:
                for k, b in enumerate(f["behaviours"]):
                    fh.write("mark %d\n" % k + "\n".join(b) + "\n")
            f["cmd"], f["trace"] = cp, tp
            args += [cp, tp]
        rc, err = verif.run_driver(exe_all, "par " + " ".join(args) + "\n", os.path.join(d, "main.ndjson"), timeout=600)
        if rc:
            raise verif.MachineryError("threaded driver failed rc=%d: %s" % (rc, err[-600:]))

        def val(f):
            return verif.validate_trace(f["spec"], f["trace"], env=f["env"])
        with ThreadPoolExecutor(max_workers=WORKERS) as ex:
            results = list(ex.map(val, files))
        for f, r in zip(files, results):
            thr_events += r["events"]
            bad = [v for v in r["viol"] if v["p"] in FUNCTIONAL]
            if not bad:
                continue
            # does the same file misbehave when run alone?  Only then it is not interference.
            solo = os.path.join(d, "solo-" + os.path.basename(f["trace"]))
            rc, err = verif.run_driver(exe_all, open(f["cmd"]).read(), solo)
            rs = verif.validate_trace(f["spec"], solo, env=f["env"])
            if any(v["p"] in FUNCTIONAL for v in rs["viol"]):
                chk.other["functional-violation-also-single-threaded"] = chk.other.get("functional-violation-also-single-threaded", 0) + 1
                continue
            interference += 1
            v = bad[0]
            chk.add_violation({"p": "C18", "what": "result-differs-when-run-concurrently", "l": v["l"], "info": [f["name"], v["p"], v["what"], v["info"]]},
                              replay_lines="# threaded run %d, thread file %s (passes when run alone)\n%s\n" % (rep, f["name"], open(f["cmd"]).read()[:4000]))
    chk.cov["evaluations"] = ne + thr_events
    chk.cov["distinct_nontrivial"] = len({hashlib.sha1("\n".join(b).encode()).hexdigest() for j in jobs for b in j["behaviours"]}) + reps * nthreads
    chk.cov["rule"] = ("(i) every event of the single-threaded call-space mix: Machine!StaticOk - the library's writable sections (renamed and "
                       "snapshotted around every call) change only when a dispatched entry point performs its first-call binding; (ii) %d runs of "
                       "%d threads released by a barrier with every dispatch binding re-armed, each thread replaying behaviours on its own "
                       "manager / context / key objects through the dispatched entry points; every thread's trace is validated against the "
                       "same sequential specification; a mismatch that disappears when the file is run alone is interference" % (reps, nthreads))
    chk.cov["samples"] = [{"job": j["name"], "behaviour": j["behaviours"][-1][:5]} for j in jobs[:2]]
    chk.cov["threaded_runs"] = reps
    chk.cov["threads_per_run"] = nthreads
    chk.cov["threaded_events_validated"] = thr_events
    chk.assumptions += ["thread schedules are whatever the OS produces (free-running); no instruction-level control here (C17 has it for the self-test word)"]
    return chk.finish()


# ------------------------------------------------------------------------------------------ HashImpl <-> code (lane level)
LANE_MODEL_FAMS = {"sse", "avx", "avx2", "avx512", "sse_ni", "avx512_ni"}       # base, sb_sse4 (no lanes): not modelled
SB_THRESHOLD = {("sha1", "avx512_ni"): 6, ("sha256", "avx512_ni"): 6}     # *_NI_SB_THRESHOLD_AVX512; every other family: 1


def lane_env(alg, fam, maxn):
    return {"MAXN": str(maxn), "NLANES": str(gen_hash.lanes(alg, fam)), "BLOCK": str(gen_hash.BLOCK[alg]), "LENF": str(gen_hash.LENF[alg]),
            "SBTHR": str(SB_THRESHOLD.get((alg, fam), 1))}


def tlc_hash_behaviours(nlanes, num, seed, depth=26):
    """behaviours drawn by TLC's simulator from HashImplSim: list of [(kind, ctx, flags, toy length, predicted return)]"""
    rc, out, dt = verif.tlc("HashImplSim", cfg="HashImplSim_%d.cfg" % nlanes, workers=4, timeout=300,
                            simulate="num=%d" % num, extra=["-depth", str(depth), "-seed", str(seed)])
    res = []
    for line in out.splitlines():
        if line.startswith("\"BEH "):
            try:
                res.append(json.loads(json.loads(line)[4:])["h"])
            except Exception:
                pass
    return res


def toy_to_real(n, alg):
    B, P = gen_hash.BLOCK[alg], gen_hash.LENF[alg]
    return (n // 4) * B + [0, 1, B - P - 1, B - P][n % 4]


def lane_level(chk, exe, tier, seed):
    """(a) TLC-simulated HashImpl behaviours replayed on real families with the same lane count; (b) random histories;
    both validated against HashImpl with the family's real parameters. Differences are MODEL-DRIFT."""
    rng = random.Random(seed + 99)
    jobs = []
    nsim = 6 if tier == "quick" else 150
    for nl, combos in ((2, [("sha512", "sse"), ("sha512", "avx"), ("sha1", "sse_ni"), ("sha256", "sse_ni")]),
                       (4, [("sha1", "sse"), ("sha256", "avx"), ("sha512", "avx2"), ("sha1", "avx")]),
                       (8, [("sha1", "avx2"), ("sha256", "avx2"), ("md5", "sse"), ("sha512", "avx512"), ("sm3", "avx2")])):
        hs = tlc_hash_behaviours(nl, nsim if nl < 8 else max(2, nsim // 3), seed, depth=26 if nl < 8 else 58)
        if nl == 8:
            hs = [h for h in hs if len(h) == 58] or hs      # the simulator prints every prefix from 56 on; keep the full ones
        nctx = {2: 3, 4: 5, 8: 9}[nl]
        for alg, fam in combos:
            bs = []
            for h in hs:
                b = ["hmgr %s %s %d" % (alg, fam, nctx)]
                bid = rng.randrange(2, 1 << 20)
                for kind, c, f, n, ret in h:
                    if kind == "s":
                        b.append("hsub %d %d %d %d %d e" % (c, f, bid + c, rng.randrange(1 << 18), toy_to_real(n, alg)))
                    else:
                        b.append("hflush")
                b += ["hdrain %d" % (nl + 6), "hend"]
                bs.append(b)
            if bs:
                j = hash_job("lane-sim-%s-%s" % (alg, fam), bs)
                j["env"] = lane_env(alg, fam, nctx)
                jobs.append(j)
    chk.cov["tlc_generated_behaviours_replayed"] = sum(len(j["behaviours"]) for j in jobs)
    for alg in gen_hash.FAMS:
        for fam in gen_hash.FAMS[alg]:
            if fam in LANE_MODEL_FAMS:
                bs = [gen_hash.random_behaviour(rng, alg, fam, with_rejects=0.1) for _ in range(4 if tier == "quick" else 30)]
                bs = [b for b in bs if int(b[0].split()[3]) <= 20][:2 if tier == "quick" else 30]
                if bs:
                    j = hash_job("lane-%s-%s" % (alg, fam), bs)
                    j["env"] = lane_env(alg, fam, int(j["env"]["MAXN"]))
                    jobs.append(j)
    outs = run_jobs(jobs, exe, "TraceHashImpl")
    n = 0
    for o in outs:
        n += o["result"]["events"]
        for v in o["result"]["viol"]:
            if v["p"] == "DRIFT":
                chk.drift.append("%s %s %s" % (o["job"]["name"], v["what"], json.dumps(v["info"])[:120]))
    chk.cov["lane_level_events_validated_against_HashImpl"] = n
    # the simulated behaviours must also satisfy the verdict spec
    vouts = run_jobs([j for j in jobs if j["name"].startswith("lane-sim")], exe, "TraceHash")
    collect(chk, vouts, {chk.prop})


# ------------------------------------------------------------------------------------------ binding self-tests
def binding_selftest(pid):
    """Demonstrates that the specification is bound to the recorded execution: a pristine trace is accepted, the same trace
    with one recorded field corrupted (or one event removed) is not.  `check.py <id> --selftest` (not part of quick)."""
    rng = random.Random(7)
    if pid in ("C01", "C06", "C11", "C15"):
        exe, spec = build.build_driver("hash", HASH_SRCS), "TraceHash"
        beh = gen_hash.class_behaviour(rng, "sha256", "avx2", "minlane")
        env = {"MAXN": "16"}
        muts = [("digest nibble", r'"dig":"([0-9a-f])', lambda m: '"dig":"%x' % ((int(m.group(1), 16) + 1) % 16)),
                ("returned context", r'"ret":0,', lambda m: '"ret":1,'), ("status word", r'"sts":\[4', lambda m: '"sts":[5')]
    elif pid in ("C02", "C03", "C04", "C07", "C14"):
        exe, spec = build.build_driver("aes", AES_SRCS), "TraceAes"
        beh = gen_aes.gcm_stream_behaviour(rng, "avx_gen4", 128, "enc", 0, [135, 1, 20]) + [gen_aes.xts_call(rng, "sse", 256, "dec", 0, 49)]
        env = {}
        muts = [("output nibble", r'"out":"([0-9a-f])', lambda m: '"out":"%x' % ((int(m.group(1), 16) + 1) % 16)),
                ("tag nibble", r'"tag":"([0-9a-f])', lambda m: '"tag":"%x' % ((int(m.group(1), 16) + 1) % 16))]
    elif pid in ("C05", "C09", "C10"):
        exe, spec = build.build_driver("mh", MH_SRCS, wraps=MH_WRAPS), "TraceMh"
        beh = gen_mh.mh_behaviour(rng, "murmur", "avx2", 1500, [1000, 24, 476]) + gen_mh.rh_behaviour(rng, "isal", "04", 16)
        env = {}
        muts = [("digest nibble", r'"dig":"([0-9a-f])', lambda m: '"dig":"%x' % ((int(m.group(1), 16) + 1) % 16)),
                ("offset", r'"off":(\d+)', lambda m: '"off":%d' % (int(m.group(1)) + 1))]
    elif pid == "C17":
        exe, spec = build.build_driver("self", SELF_SRCS, variant="fips", wraps=SELF_WRAPS), "TraceSelfTest"
        mapcmd, _ = gen_self.instr_map(exe)
        beh = [mapcmd, "selfrun 2 2 0 0 t 0011110000111100"]
        env = {}
        muts = [("return value", r'"rv":0', lambda m: '"rv":2016'), ("second run of the tests", r'(\{"e":"RunAes","t":\d\})', lambda m: m.group(1) + "\n" + m.group(1))]
    else:
        print("no binding self-test for", pid)
        return 2
    import re
    d = verif.scratch("selftest")
    tr = os.path.join(d, "t.ndjson")
    rc, err = verif.run_driver(exe, "\n".join(beh) + "\n", tr)
    base = verif.validate_trace(spec, tr, env=env)
    ok = not [v for v in base["viol"] if v["p"] not in ("DRIFT",)]
    print("pristine trace: %d events, %d violations -> %s" % (base["events"], len(base["viol"]), "accepted" if ok else "REJECTED"))
    text = open(tr).read()
    allok = ok
    for name, pat, rep in muts:
        t2, n = re.subn(pat, rep, text, count=1)
        if not n:
            print("mutation '%s': pattern not found" % name)
            allok = False
            continue
        p2 = os.path.join(d, "m.ndjson")
        open(p2, "w").write(t2)
        r = verif.validate_trace(spec, p2, env=env)
        caught = [v for v in r["viol"] if v["p"] != "DRIFT"]
        print("corrupted %-24s -> %s %s" % (name, "rejected" if caught else "STILL ACCEPTED", [(v["p"], v["what"]) for v in caught[:2]]))
        allok = allok and bool(caught)
    return 0 if allok else 1
