------------------------------ MODULE HashAPI ------------------------------
(***************************************************************************)
(* VERDICT specification of the multi-buffer hash manager at the level of  *)
(* the public API (properties C01, C06, C11, C15).  It is exactly as       *)
(* permissive as the property statements: it does not say which lane or    *)
(* kernel runs, when a submit returns NULL rather than a finished job, or  *)
(* which of several applicable rejection codes is reported.                *)
(*                                                                         *)
(* State                                                                   *)
(*   st[c]      "fresh" (after isal_hash_ctx_init), "idle", "held",        *)
(*              "complete"                                                 *)
(*   stream[c]  the segments submitted to c since its FIRST, in order      *)
(*   total[c]   sum of their lengths, as a pair <<hi, lo>> base 2^20       *)
(*              (TLC integers are 32 bit; totals cross 2^32 in C15)        *)
(*   last[c]    the segment now in flight (or last handed back) had LAST   *)
(*   held       contexts the manager currently owns                        *)
(*   err[c]     error field of c                                           *)
(*                                                                         *)
(* HashImpl (the implementation-shaped model of the context layer + lane   *)
(* scheduler) is checked by TLC to refine this module; TraceHash replays   *)
(* recorded executions of the real code against it.                        *)
(***************************************************************************)
EXTENDS Naturals, Integers, Sequences, FiniteSets

CONSTANTS Ctx,       \* set of context identifiers
          MaxHeld,   \* number of lanes: the manager never holds more
          Segs,      \* segments that may be submitted (model values or <<b, off, hi, lo>> tuples)
          SegLen(_)  \* length of a segment as a pair <<hi, lo>>

VARIABLES st, stream, total, last, held, err
vars == << st, stream, total, last, held, err >>

NULL == -1
FIRST == 1
LAST == 2
ValidFlags == 0..3
HasFirst(f) == f % 2 = 1
HasLast(f) == (f \div 2) % 2 = 1
IsValid(f) == f \in ValidFlags

EINVALID == -1       \* ISAL_HASH_CTX_ERROR_INVALID_FLAGS
EPROCESSING == -2    \* ISAL_HASH_CTX_ERROR_ALREADY_PROCESSING
ECOMPLETED == -3     \* ISAL_HASH_CTX_ERROR_ALREADY_COMPLETED

\* pair arithmetic base 2^20
Base == 1048576
AddPair(a, b) == LET lo == a[2] + b[2]
                 IN << a[1] + b[1] + (lo \div Base), lo % Base >>
ZeroPair == << 0, 0 >>

(* Every reason for which the call must be refused.  When several hold at  *)
(* once any of the matching codes is acceptable (precedence is not part of *)
(* the property).  A flags word with bits outside FIRST|LAST is never      *)
(* interpreted, so "continuing a completed context" is judged on valid     *)
(* flags only.                                                             *)
RejectCodes(c, flags) ==
     (IF ~IsValid(flags) THEN {EINVALID} ELSE {})
  \cup (IF c \in held THEN {EPROCESSING} ELSE {})
  \cup (IF st[c] \in {"fresh", "complete"} /\ IsValid(flags) /\ ~HasFirst(flags) THEN {ECOMPLETED} ELSE {})

Init == /\ st = [c \in Ctx |-> "fresh"]
        /\ stream = [c \in Ctx |-> << >>]
        /\ total = [c \in Ctx |-> ZeroPair]
        /\ last = [c \in Ctx |-> FALSE]
        /\ held = {}
        /\ err = [c \in Ctx |-> 0]

(* A refused submit is handed straight back and changes nothing but the    *)
(* error field of that context (C11).                                      *)
SubmitReject(c, flags, code) ==
  /\ code \in RejectCodes(c, flags)
  /\ err' = [err EXCEPT ![c] = code]
  /\ UNCHANGED << st, stream, total, last, held >>

(* The manager hands back `ret`: one of the contexts it holds, which       *)
(* thereby leaves the manager, idle or complete according to its segment.  *)
HandBack(h, ret) ==
  /\ ret \in h
  /\ held' = h \ {ret}

(* An accepted submit: the segment is appended to (or, with FIRST, starts) *)
(* the context's stream; the call returns NULL or any held context.        *)
SubmitAccept(c, flags, seg, ret) ==
  /\ RejectCodes(c, flags) = {}
  /\ stream' = [stream EXCEPT ![c] = IF HasFirst(flags) THEN << seg >> ELSE Append(@, seg)]
  /\ total' = [total EXCEPT ![c] = AddPair(IF HasFirst(flags) THEN ZeroPair ELSE @, SegLen(seg))]
  /\ last' = [last EXCEPT ![c] = HasLast(flags)]
  /\ err' = [err EXCEPT ![c] = 0]
  /\ LET h == held \cup {c}
         s1 == [st EXCEPT ![c] = "held"]
     IN IF ret = NULL
        THEN held' = h /\ st' = s1
        ELSE /\ HandBack(h, ret)
             /\ st' = [s1 EXCEPT ![ret] = IF last'[ret] THEN "complete" ELSE "idle"]

(* Flush returns no context exactly when the manager holds none.           *)
Flush(ret) ==
  /\ IF held = {} THEN ret = NULL ELSE ret \in held
  /\ IF ret = NULL
     THEN UNCHANGED << st, held >>
     ELSE /\ held' = held \ {ret}
          /\ st' = [st EXCEPT ![ret] = IF last[ret] THEN "complete" ELSE "idle"]
  /\ UNCHANGED << stream, total, last, err >>

(* Re-initialising a context the caller owns (isal_hash_ctx_init).         *)
CtxInit(c) ==
  /\ c \notin held
  /\ st' = [st EXCEPT ![c] = "fresh"]
  /\ err' = [err EXCEPT ![c] = 0]
  /\ UNCHANGED << stream, total, last, held >>

Next ==
  \/ \E c \in Ctx, f \in 0..4, s \in Segs, r \in Ctx \cup {NULL} : SubmitAccept(c, f, s, r)
  \/ \E c \in Ctx, f \in 0..4, code \in {EINVALID, EPROCESSING, ECOMPLETED} : SubmitReject(c, f, code)
  \/ \E r \in Ctx \cup {NULL} : Flush(r)

Spec == Init /\ [][Next]_vars

----------------------------------------------------------------------------
\* Invariants of the verdict spec (true by construction; HashImpl inherits them by refinement)
TypeOK == /\ st \in [Ctx -> {"fresh", "idle", "held", "complete"}]
          /\ held \subseteq Ctx
HeldIsHeld == held = {c \in Ctx : st[c] = "held"}
Conservation == Cardinality(held) <= Cardinality(Ctx)
\* the capacity clause is a constraint on implementations, checked on HashImpl and on traces:
WithinLanes == Cardinality(held) <= MaxHeld
=============================================================================
