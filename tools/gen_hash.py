#!/usr/bin/env python3
"""Behaviour generators for the hash-manager driver (harness/drv_hash.c).

A behaviour is a list of driver commands for one manager.  Commands:
  hmgr <alg> <fam> <nctx>            new manager + contexts
  hsub  <c> <flags> <b> <off> <len> <place>   submit as is (may be a call the API must refuse)
  hsubw <c> <flags> <b> <off> <len> <place>   the way a user drives the API: while c is still
                                              processing, flush; then submit
  hflush | hdrain <max> | hend
The generator only chooses inputs; what the library returns and whether that is right is
recorded by the driver and decided by TLC (TraceHash / HashAPI).
"""
import random

FAMS = {
    "sha1":   ["base", "sse", "avx", "avx2", "avx512", "sse_ni", "avx512_ni"],
    "sha256": ["base", "sse", "avx", "avx2", "avx512", "sse_ni", "avx512_ni"],
    "sha512": ["base", "sse", "avx", "avx2", "avx512", "sb_sse4"],
    "md5":    ["base", "sse", "avx", "avx2", "avx512"],
    "sm3":    ["base", "avx2", "avx512"],
}
API_FAMS = ["isal", "legacy"]
LANES = {  # generator heuristic only (how many contexts make the manager full)
    ("sha1", "sse"): 4, ("sha1", "avx"): 4, ("sha1", "avx2"): 8, ("sha1", "avx512"): 16, ("sha1", "sse_ni"): 2,
    ("sha1", "avx512_ni"): 16,
    ("sha256", "sse"): 4, ("sha256", "avx"): 4, ("sha256", "avx2"): 8, ("sha256", "avx512"): 16, ("sha256", "sse_ni"): 2,
    ("sha256", "avx512_ni"): 16,
    ("sha512", "sse"): 2, ("sha512", "avx"): 2, ("sha512", "avx2"): 4, ("sha512", "avx512"): 8, ("sha512", "sb_sse4"): 1,
    ("md5", "sse"): 8, ("md5", "avx"): 8, ("md5", "avx2"): 16, ("md5", "avx512"): 32,
    ("sm3", "avx2"): 8, ("sm3", "avx512"): 16,
}
DISP_LANES = {"sha1": 16, "sha256": 16, "sha512": 8, "md5": 32, "sm3": 16}
BLOCK = {"sha1": 64, "sha256": 64, "sha512": 128, "md5": 64, "sm3": 64}
LENF = {"sha1": 8, "sha256": 8, "sha512": 16, "md5": 8, "sm3": 8}


def all_families(alg):
    return FAMS[alg] + API_FAMS


def lanes(alg, fam):
    if fam in ("isal", "legacy", "int"):
        return DISP_LANES[alg]
    return LANES.get((alg, fam), 1)


def length_classes(alg):
    B, P = BLOCK[alg], LENF[alg]
    return [0, 1, B - P - 2, B - P - 1, B - P, B - 1, B, B + 1, 2 * B - P - 1, 2 * B - 1, 2 * B, 3 * B + 5, 17 * B + 3]


def pick_len(rng, alg, big=False):
    r = rng.random()
    B = BLOCK[alg]
    if r < 0.45:
        return rng.choice(length_classes(alg))
    if r < 0.75:
        return rng.randrange(0, 4 * B)
    if r < 0.95 or not big:
        return rng.randrange(0, 40 * B)
    return rng.randrange(0, 65536)


def pick_place(rng, ln=None):
    if ln == 0 and rng.random() < 0.3:
        return "n"          # (NULL, 0): the driver uses a real pointer instead on the isal_ entry points
    r = rng.random()
    if r < 0.4:
        return "e"
    if r < 0.57:
        return "s"
    if r < 0.63:
        return "g"          # straddling a multiple of 4 GiB
    return "a%d" % rng.randrange(0, 64)


def plan_message(rng, alg):
    """list of (flags, len) for one message: ENTIRE or FIRST UPDATE* LAST"""
    if rng.random() < 0.35:
        return [(3, pick_len(rng, alg, True))]
    k = rng.choice([0, 0, 1, 1, 2, 3, 5, 10])
    segs = [(1, pick_len(rng, alg))] + [(0, pick_len(rng, alg)) for _ in range(k)] + [(2, pick_len(rng, alg))]
    return segs


def random_behaviour(rng, alg, fam, with_rejects=0.0, reuse=True, midflush=True):
    L = lanes(alg, fam)
    nctx = rng.choice([1, 2, L, L + 1, min(2 * L, 40), rng.randrange(1, min(2 * L, 40) + 1)])
    nctx = max(1, min(nctx, 40))
    cmds = ["hmgr %s %s %d" % (alg, fam, nctx)]
    pend = {}   # ctx -> remaining segments of the current message
    msgs_left = {c: rng.choice([1, 1, 2, 3]) if reuse else 1 for c in range(nctx)}
    bufid = rng.randrange(2, 1 << 20)
    live = list(range(nctx))
    steps = 0
    while live and steps < 400:
        steps += 1
        c = rng.choice(live)
        if c not in pend:
            pend[c] = plan_message(rng, alg)
            if rng.random() < 0.1 and msgs_left[c] > 1 and len(pend[c]) > 1:
                # abandon the message mid-stream later: drop its tail so the next message restarts with FIRST/ENTIRE
                pend[c] = pend[c][:rng.randrange(1, len(pend[c]))]
        flags, ln = pend[c].pop(0)
        b = rng.choice([bufid, bufid + c, 0, 1]) if rng.random() < 0.9 else rng.randrange(2, 1 << 20)
        off = rng.randrange(0, 1 << 20)
        if with_rejects and rng.random() < with_rejects:
            kind = rng.random()
            if kind < 0.4:      # bad flag bits
                cmds.append("hsubw %d %d %d %d %d %s" % (c, rng.choice([4, 5, 6, 7, 8, 0x80, 0x103]), b, off, ln, pick_place(rng)))
            elif kind < 0.8:    # submit on a context that is probably still in flight
                cmds.append("hsub %d %d %d %d %d %s" % (rng.choice(range(nctx)), rng.choice([0, 1, 2, 3]), b, off, ln, pick_place(rng)))
            else:               # continue a context regardless of its state (fresh/complete -> must be refused)
                cmds.append("hsubw %d %d %d %d %d %s" % (rng.choice(range(nctx)), rng.choice([0, 2]), b, off, ln, pick_place(rng)))
        cmds.append("hsubw %d %d %d %d %d %s" % (c, flags, b, off, ln, pick_place(rng, ln)))
        if not pend[c]:
            del pend[c]
            msgs_left[c] -= 1
            if msgs_left[c] <= 0:
                live.remove(c)
        if midflush and rng.random() < 0.08:
            cmds.append("hflush")
        if rng.random() < 0.05:     # the caller relocates a context that is not in flight (the driver skips it otherwise)
            cmds.append("hmove %d" % rng.randrange(nctx))
    cmds.append("hdrain %d" % (L + 34))
    cmds.append("hend")
    return cmds


def class_behaviour(rng, alg, fam, pattern):
    """Behaviours aimed at manager-state classes: all lanes equal, each lane the minimum,
    flush with k live lanes, single-buffer thresholds."""
    L = lanes(alg, fam)
    B = BLOCK[alg]
    cmds = []
    bufid = rng.randrange(2, 1 << 20)
    if pattern == "equal":          # every lane the same length -> ties in the min search
        n = L + 1
        ln = rng.choice([B, 2 * B, 3 * B + 7])
        cmds.append("hmgr %s %s %d" % (alg, fam, n))
        for c in range(n):
            cmds.append("hsubw %d 3 %d %d %d e" % (c, bufid + c, c * 17, ln))
    elif pattern == "minlane":      # lane k strictly the shortest, k rotates
        n = L
        k = rng.randrange(0, max(1, L))
        cmds.append("hmgr %s %s %d" % (alg, fam, n + 1))
        for c in range(n):
            ln = (2 if c == k else 4 + (c % 3)) * B + (c % 5)
            cmds.append("hsubw %d 3 %d %d %d s" % (c, bufid, c * 131, ln))
        cmds.append("hsubw %d 3 %d %d %d e" % (n, bufid, 7, B))
    elif pattern == "flushk":       # flush with k live lanes, k = 1..L
        k = rng.randrange(1, L + 1)
        cmds.append("hmgr %s %s %d" % (alg, fam, k))
        for c in range(k):
            cmds.append("hsubw %d 3 %d %d %d a%d" % (c, bufid, c * 257, rng.choice([0, 1, B - 1, B, 5 * B + c]), rng.randrange(64)))
        for _ in range(rng.randrange(0, k + 1)):
            cmds.append("hflush")
    elif pattern == "stream1":      # one context, many tiny updates crossing every residue
        cmds.append("hmgr %s %s 2" % (alg, fam))
        cmds.append("hsubw 0 1 %d 0 %d e" % (bufid, rng.randrange(0, B)))
        off = 1000
        for i in range(rng.randrange(3, 40)):
            ln = rng.choice([0, 1, 2, 3, B // 2, B - 1, B, B + 1])
            cmds.append("hsubw 0 0 %d %d %d %s" % (bufid, off, ln, pick_place(rng)))
            off += ln
            if rng.random() < 0.3:
                cmds.append("hflush")
        cmds.append("hsubw 0 2 %d %d %d e" % (bufid, off, rng.choice([0, 1, B - LENF[alg] - 1, B - LENF[alg], B])))
    elif pattern == "reuse":        # complete, then reuse the same context for other messages, restart mid-stream
        cmds.append("hmgr %s %s 3" % (alg, fam))
        for i in range(6):
            c = i % 2
            r = rng.random()
            if r < 0.4:
                cmds.append("hsubw %d 3 %d %d %d e" % (c, bufid + i, i, pick_len(rng, alg)))
            elif r < 0.7:
                cmds.append("hsubw %d 1 %d %d %d e" % (c, bufid + i, i, pick_len(rng, alg)))
                cmds.append("hsubw %d 2 %d %d %d s" % (c, bufid + i, i + 5000, pick_len(rng, alg)))
            else:
                cmds.append("hsubw %d 1 %d %d %d e" % (c, bufid + i, i, rng.randrange(1, 3 * B)))
                cmds.append("hsubw %d 0 %d %d %d e" % (c, bufid + i, 9, rng.randrange(1, B)))
                # abandoned: next use restarts with FIRST/ENTIRE while partial bytes are buffered
    elif pattern == "drainreuse":   # drain the manager completely by flush, then fill it beyond its lane count without a flush
        k = rng.choice([1, 2, L, max(1, L - 1)])
        n = L + 2
        cmds.append("hmgr %s %s %d" % (alg, fam, n))
        for c in range(k):
            cmds.append("hsubw %d 3 %d %d %d e" % (c, bufid, c * 31, rng.choice([1, B, 2 * B + 3])))
        cmds.append("hdrain %d" % (L + 34))
        if rng.random() < 0.5:      # twice: the free-lane stack goes through the all-free state again
            cmds.append("hsubw 0 3 %d 5 %d e" % (bufid, B))
            cmds.append("hdrain %d" % (L + 34))
        for c in range(n):
            cmds.append("hsubw %d 3 %d %d %d s" % (c, bufid + 1, c * 67, (2 + c % 4) * B + c))
    elif pattern == "threetrip":    # every context needs three trips through the lanes (buffered partial block, whole blocks, padding)
        k = rng.choice([max(1, L - 1), max(1, L - 1), L, rng.randrange(1, L + 1)])
        cmds.append("hmgr %s %s %d" % (alg, fam, k + 1))
        for c in range(k):
            cmds.append("hsubw %d 1 %d %d %d e" % (c, bufid + c, c * 11, rng.randrange(1, B)))
        for c in range(k):
            cmds.append("hsubw %d 2 %d %d %d e" % (c, bufid + c, 7000 + c * 11, rng.choice([2 * B, 3 * B + 1, B + B // 2])))
    elif pattern == "overfill":     # many more streaming contexts than lanes, never a flush between the pieces
        n = min(40, 3 * L + 3)
        cmds.append("hmgr %s %s %d" % (alg, fam, n))
        for c in range(n):          # short FIRST pieces: buffered, no lane used
            cmds.append("hsub %d 1 %d %d %d e" % (c, bufid + c, c * 13, 1 + (c * 7) % (B - 1)))
        for c in range(n):          # each UPDATE completes the buffered block and carries more: lanes fill up and turn over
            cmds.append("hsubw %d 0 %d %d %d e" % (c, bufid + c, 3000 + c * 13, B + (c % 3) * B + c))
        for c in range(n):
            cmds.append("hsubw %d 2 %d %d %d e" % (c, bufid + c, 9000 + c * 13, c % 5))
    elif pattern == "longlane":     # one lane holds a single segment of >= 2^31 bytes while the others turn over short jobs
        if L < 2:
            return class_behaviour(rng, alg, fam, "equal")
        a = rng.randrange(L)
        b = (a + rng.choice([1, 2, 4, 8, 16, L // 2, L - 1])) % L
        if b == a:
            b = (a + 1) % L
        return longlane_behaviour(rng, alg, fam, a, b)
    cmds.append("hdrain %d" % (L + 34))
    cmds.append("hend")
    return cmds


def longlane_behaviour(rng, alg, fam, a, b, biglen=None, drain=False):
    """the a-th submit is one segment of >= 2^31 bytes (its lane's length word has the top bit set in the managers that keep
    bytes or blocks<<k in 32 bits), the b-th is the strictly shortest job; the manager is then kept full by further short
    submits so that many minimum searches run with the long lane present. The long job is never finished (no drain): the
    verdict is on the short jobs handed back."""
    L = lanes(alg, fam)
    B = BLOCK[alg]
    bufid = rng.randrange(2, 1 << 20)
    biglen = biglen or rng.choice([1 << 31, (1 << 31) + B + 3, (1 << 32) - 1, (1 << 32) - B])
    extra = 6
    cmds = ["hmgr %s %s %d" % (alg, fam, L + extra)]
    for c in range(L):
        if c == a:
            ln = biglen
        elif c == b:
            ln = B + B // 2     # one whole block straight from the (guarded) user buffer, the rest buffered
        else:
            ln = (2 + (c * 7) % 5) * B + c
        cmds.append("hsub %d 3 %d %d %d e" % (c, bufid + c, c * 257, ln))
    for c in range(L, L + extra):
        cmds.append("hsub %d 3 %d %d %d e" % (c, bufid + c, c * 257, (1 + c % 3) * B + 1))
    if drain:                   # finishes the long job too (2 GiB through one lane)
        cmds.append("hdrain %d" % (L + extra + 4))
    cmds.append("hend")
    return cmds


def refuse_matrix(rng, alg, fam):
    """every context state x every flags word: one probe submit each (the spec decides which probes must be refused and with
    which codes; an accepted probe must then behave as an ordinary submit)"""
    B = BLOCK[alg]
    out = []
    for state in ("fresh", "idle", "inflight-body", "inflight-pad", "complete"):
        for f in (0, 1, 2, 3, 8, 0x20, 0x100, 0x10000, 0x40000000, 0x7ffffffc):
            b = rng.randrange(2, 1 << 20)
            cmds = ["hmgr %s %s 2" % (alg, fam)]
            if state == "idle":
                cmds.append("hsub 0 1 %d 0 %d e" % (b, rng.randrange(1, B)))
            elif state == "inflight-body":
                cmds.append("hsub 0 1 %d 0 %d e" % (b, 3 * B + rng.randrange(B)))
            elif state == "inflight-pad":
                cmds.append("hsub 0 3 %d 0 %d e" % (b, rng.randrange(0, B - LENF[alg] - 1)))
            elif state == "complete":
                cmds += ["hsub 0 3 %d 0 %d e" % (b, rng.randrange(0, 3 * B)), "hdrain 4"]
            cmds.append("hsub 0 %d %d 5000 %d %s" % (f, b, rng.choice([0, 1, B, B + 7]), pick_place(rng)))
            cmds.append("hsub 1 3 %d 9000 %d e" % (b + 1, rng.randrange(0, 2 * B)))     # an unrelated context alongside
            cmds.append("hdrain 6")
            # whatever happened to the probe, the message in progress is then finished (a refusal must not have cost it data);
            # the spec refuses this LAST where the context is fresh or complete
            cmds.append("hsubw 0 2 %d 7000 %d e" % (b, rng.choice([0, 5, B + 3])))
            cmds += ["hdrain 6", "hend"]
            out.append(cmds)
    return out


CLASS_PATTERNS = ["equal", "minlane", "flushk", "stream1", "reuse", "drainreuse", "threetrip", "longlane", "overfill"]


def job_behaviour(rng, alg, fam):
    """the lane scheduler driven directly: every submit uses a fresh job object; lengths in whole blocks"""
    L = max(1, lanes(alg, fam))
    n = rng.choice([1, 2, L, L + 1, L + 3, min(2 * L, 40)])
    n = max(1, min(n, 40))
    cmds = ["jmgr %s %s %d" % (alg, fam, n)]
    b = rng.randrange(2, 1 << 20)
    for j in range(n):
        nblk = rng.choice([1, 1, 2, 3, 5, 17]) if rng.random() < 0.8 else rng.randrange(1, 40)
        if rng.random() < 0.2:
            nblk = 2            # ties
        cmds.append("jsub %d %d %d %d %s" % (j, b + j, rng.randrange(1 << 18), nblk, pick_place(rng)))
        if rng.random() < 0.15:
            cmds.append("jflush")
    cmds.append("jdrain %d" % (L + 34))
    cmds.append("jend")
    return cmds


def job_jobs(rng, per_fam):
    jobs = []
    for alg in FAMS:
        for fam in FAMS[alg]:
            if fam == "base":
                continue
            jobs.append({"name": "job-%s-%s" % (alg, fam), "behaviours": [job_behaviour(rng, alg, fam) for _ in range(per_fam)], "driver": "job"})
    return jobs
