/* core.h - shared harness services: call trampoline, guarded buffers, pattern data,
 * observation record ("obs"), ndjson event writer, command-file reader. */
#ifndef VERIF_CORE_H
#define VERIF_CORE_H
#include <stdint.h>
#include <stddef.h>
#include <stdio.h>

/* ---------- pattern data (shared definition with overrides/src/isal/Prim.java) ---------- */
#define PAT_PERIOD (1u << 20)
static inline uint64_t
splitmix64(uint64_t x)
{
        x += 0x9E3779B97F4A7C15ull;
        x = (x ^ (x >> 30)) * 0xBF58476D1CE4E5B9ull;
        x = (x ^ (x >> 27)) * 0x94D049BB133111EBull;
        return x ^ (x >> 31);
}
/* byte i of pattern buffer b; b = 0 all zero, b = 1 all 0xff, otherwise pseudo random, period 2^20 */
static inline uint8_t
pat_byte(uint32_t b, uint64_t i)
{
        if (b == 0)
                return 0;
        if (b == 1)
                return 0xff;
        i &= (PAT_PERIOD - 1);
        return (uint8_t) (splitmix64(((uint64_t) b << 32) | (i >> 3)) >> (8 * (i & 7)));
}
void pat_fill(uint8_t *dst, uint32_t b, uint64_t off, uint64_t len);
uint8_t *huge_window(uint32_t b); /* 4 GiB + window of virtual memory repeating pattern buffer b (period 2^20) */

/* ---------- guarded buffers ---------- */
enum { PL_END = 0, PL_START = 1, PL_MID = 2, PL_4G = 3, PL_AT4G = 4 };
typedef struct gbuf {
        uint8_t *p;      /* user pointer */
        size_t len;
        uint8_t *map;    /* mmap base */
        size_t maplen;
        int place;
        uint32_t canary; /* seed of canary bytes around a PL_MID buffer / slack of others */
        uint64_t sum;    /* checksum taken by gbuf_seal() */
} gbuf;
/* place: PL_END   = last byte flush against an inaccessible page (slack before start is canary)
 *        PL_START = first byte right after an inaccessible page (slack after end is canary)
 *        PL_MID   = at (64-aligned base + align) with canaries on both sides             */
int gbuf_alloc(gbuf *g, size_t len, int place, unsigned align);
void gbuf_free(gbuf *g);
void gbuf_seal(gbuf *g);            /* remember checksum of contents (for inputs) */
int gbuf_intact(const gbuf *g);     /* contents unchanged since seal */
int gbuf_canary_ok(const gbuf *g);  /* slack bytes around the buffer unchanged */
uint64_t mem_sum(const void *p, size_t n);
int gbuf_parse_place(const char *s, int *place, unsigned *align); /* "e" | "s" | "a<k>" */

/* ---------- trampoline ---------- */
struct vregs {
        uint64_t rax, rbx, rbp, r12, r13, r14, r15, rsp, rflags;
        uint32_t mxcsr;
        uint16_t fcw, pad;
        uint64_t k[8];
        uint64_t rdx;
        uint64_t pad2[5];
        uint8_t zmm[32][64];
} __attribute__((aligned(64)));

struct vcall_in {
        void *fn;
        uint64_t nargs;
        uint64_t args[12];
        uint64_t cs[6];
        uint64_t garb[4];
        uint8_t *zmm_in;
        uint64_t k_in[8];
        uint64_t sp;
};

typedef struct obs {
        int fault;            /* 0 none, else signal number */
        uint64_t fault_addr;
        char fault_where[64]; /* region name + offset if the address falls in a registered buffer */
        int cs_bad;           /* bit mask: rbx rbp r12 r13 r14 r15 */
        int64_t rsp_delta;
        int df;
        int mxcsr_same, x87_same;
        int above_ok;         /* canaries above the frame intact */
        int canary_ok;        /* canaries around every registered buffer intact */
        int inputs_ok;        /* every registered input unchanged */
        char bad_buf[64];     /* name of first buffer that failed canary / input check */
        int static_changed;   /* number of changed bytes in library writable statics */
        int static_nonbinding; /* ... of which not part of a word that now holds a library function address */
        char static_sym[64];  /* first changed symbol */
        uint64_t ret;
        uint64_t stack_used;  /* bytes of dead stack that no longer hold the prefill pattern */
} obs;

/* registered buffers for the current call (cleared by vc_begin) */
void vc_begin(void);
void vc_input(const char *name, gbuf *g);   /* must be unchanged, canaries intact */
void vc_output(const char *name, gbuf *g);  /* canaries intact */
void vc_input_raw(const char *name, const void *p, size_t n); /* plain memory that must stay unchanged */
uint64_t vcall(void *fn, int nargs, const uint64_t *args, obs *o);
extern __thread struct vregs vc_regs;       /* register file after the last call */
extern int vc_step;
extern int vc_hidden_seed;                  /* seed of all hidden inputs (C20) */
extern int vc_dump_secrets;                 /* when set, ev_obs also dumps vector regs + dirty dead stack */
void vc_thread_init(void);
/* dead stack: region [vc_stack_lo, vc_stack_hi) as left by the last call */
void vc_dead_stack(const uint8_t **lo, const uint8_t **hi);
int vc_stack_dirty_runs(char *hexout, size_t cap); /* hex dump of non-pattern runs (16-byte granules) */

/* garbage fill for objects the API has not initialised (C20) */
void hidden_fill(void *p, size_t n, uint32_t salt);

/* library statics */
void statics_snapshot(void);
int statics_diff(char *sym, size_t cap); /* bytes changed since snapshot */

/* ---------- events ---------- */
void ev_open(const char *path);
void ev_close(void);
void ev_begin(const char *name);
void ev_int(const char *k, long long v);
void ev_str(const char *k, const char *v);
void ev_hex(const char *k, const void *p, size_t n);
void ev_raw(const char *k, const char *json);
void ev_obs(const obs *o);
void ev_end(void);
extern FILE *ev_fp;
extern __thread FILE *ev_fp_thread;
extern int vc_parallel;
extern long ev_count;

/* ---------- command reader ---------- */
typedef struct cmd {
        int n;
        char *t[64];
        char line[4096];
} cmd;
int cmd_read(FILE *f, cmd *c); /* 1 ok, 0 eof */
long long cmd_i(const cmd *c, int i);

void die(const char *fmt, ...) __attribute__((noreturn, format(printf, 1, 2)));
void behaviour_abort(const char *why) __attribute__((noreturn)); /* after a fault: flush trace, exit 0 */
void *sym_lookup(const char *name); /* generated table of library entry points */
int sym_count(void);
void *sym_at(int i, const char **name);
const char *sym_name(void *addr);
void note_called(const char *name);

volatile int *find_self_test_word(void (*setter)(int));
unsigned obj_misalign(unsigned al);
int obj_reuse(void);
int gbuf_alloc_obj(gbuf *g, size_t len, unsigned al);
void gbuf_move_obj(gbuf *g, unsigned al);

#endif
