SPECIFICATION GSpec
INVARIANT GFailClosed
PROPERTY GNeverWorkAfterFailure
CHECK_DEADLOCK FALSE
