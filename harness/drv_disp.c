/* drv_disp.c - run-time dispatch under a virtual CPU (C12, C18), no source hooks.
 *
 * Every dispatched entry point F is   F-5: call F_dispatch_init ; F: jmp [F_dispatched]
 * so the binding slot and the resolver are found from the exported symbol alone.  The resolver is
 * executed under the x86 trap flag; the SIGTRAP handler answers CPUID and XGETBV from the virtual
 * CPU of the behaviour and skips the instruction.  Nothing in the library is patched.
 *
 *   vcpu <cpuid1.eax> <cpuid1.ecx> <cpuid1.edx> <cpuid7.ebx> <cpuid7.ecx> <xcr0>
 *   bindall                     re-arm every slot, run every resolver, report slot -> symbol
 *   bindrace <entry> <nthreads> racing first resolutions of one entry under a schedule-free barrier */
#define _GNU_SOURCE
#include "core.h"
#include <string.h>
#include <stdlib.h>
#include <signal.h>
#include <ucontext.h>
#include <pthread.h>

static uint32_t v_eax1, v_ecx1, v_edx1, v_ebx7, v_ecx7, v_xcr0;
static __thread long cpuid_calls, xgetbv_calls;
static __thread int emu_on;
static void **watch_slot;      /* binding slot of the resolver being stepped */
static void *watch_last;
static int watch_changes;      /* how many times the slot value changed while the resolver ran */

static void
on_trap(int sig, siginfo_t *si, void *ucv)
{
        (void) sig;
        (void) si;
        ucontext_t *uc = ucv;
        if (!emu_on) {
                uc->uc_mcontext.gregs[REG_EFL] &= ~0x100ll;
                return;
        }
        if (watch_slot && *watch_slot != watch_last) {
                watch_changes++;
                watch_last = *watch_slot;
        }
        for (;;) {
                const uint8_t *ip = (const uint8_t *) uc->uc_mcontext.gregs[REG_RIP];
                if (ip[0] == 0x0f && ip[1] == 0xa2) { /* cpuid */
                        uint32_t leaf = (uint32_t) uc->uc_mcontext.gregs[REG_RAX], sub = (uint32_t) uc->uc_mcontext.gregs[REG_RCX];
                        uint32_t a = 0, b = 0, c = 0, d = 0;
                        if (leaf == 0) {
                                a = 7;
                                b = 0x756e6547;
                                d = 0x49656e69;
                                c = 0x6c65746e;
                        } else if (leaf == 1) {
                                a = v_eax1;
                                c = v_ecx1;
                                d = v_edx1;
                        } else if (leaf == 7 && sub == 0) {
                                b = v_ebx7;
                                c = v_ecx7;
                        }
                        uc->uc_mcontext.gregs[REG_RAX] = a;
                        uc->uc_mcontext.gregs[REG_RBX] = b;
                        uc->uc_mcontext.gregs[REG_RCX] = c;
                        uc->uc_mcontext.gregs[REG_RDX] = d;
                        uc->uc_mcontext.gregs[REG_RIP] += 2;
                        cpuid_calls++;
                        continue;
                }
                if (ip[0] == 0x0f && ip[1] == 0x01 && ip[2] == 0xd0) { /* xgetbv */
                        uc->uc_mcontext.gregs[REG_RAX] = v_xcr0;
                        uc->uc_mcontext.gregs[REG_RDX] = 0;
                        uc->uc_mcontext.gregs[REG_RIP] += 3;
                        xgetbv_calls++;
                        continue;
                }
                break;
        }
}

struct dent {
        const char *name;
        uint8_t *f;
        void **slot;
        void *mbinit, *resolver;
};
static struct dent D[128];
static int nd;

static void
discover(void)
{
        if (nd)
                return;
        int n = sym_count();
        for (int i = 0; i < n; i++) {
                const char *nm;
                uint8_t *f = sym_at(i, &nm);
                if (f[0] == 0xff && f[1] == 0x25 && f[-5] == 0xe8) {
                        int32_t rel, crel;
                        memcpy(&rel, f + 2, 4);
                        memcpy(&crel, f - 4, 4);
                        void **slot = (void **) (f + 6 + rel);
                        if (nd >= 128)
                                die("too many dispatched entries");
                        /* several names may alias the same stub (slver records are data, not matched here) */
                        D[nd].name = nm;
                        D[nd].f = f;
                        D[nd].slot = slot;
                        D[nd].mbinit = f - 5;
                        D[nd].resolver = f + crel;
                        nd++;
                }
        }
        struct sigaction sa;
        memset(&sa, 0, sizeof sa);
        sa.sa_sigaction = on_trap;
        sa.sa_flags = SA_SIGINFO | SA_ONSTACK;
        sigaction(SIGTRAP, &sa, NULL);
}

/* run a resolver under the virtual CPU; the trampoline checks the register-preservation contract too */
extern void tf_call_thunk(void);
void *thunk_target;
__asm__(".text\n.globl tf_call_thunk\n.type tf_call_thunk,@function\ntf_call_thunk:\n"
        "\tpushfq\n\torq $0x100,(%rsp)\n\tpopfq\n"          /* trap flag on */
        "\tcall *thunk_target(%rip)\n"
        "\tpushfq\n\tandq $~0x100,(%rsp)\n\tpopfq\n"        /* trap flag off */
        "\tret\n");

static void
resolve(struct dent *d, obs *o)
{
        *d->slot = d->mbinit; /* re-arm the binding */
        thunk_target = d->resolver;
        cpuid_calls = xgetbv_calls = 0;
        watch_slot = d->slot;
        watch_last = *d->slot;
        watch_changes = 0;
        emu_on = 1;
        vc_begin();
        vcall((void *) tf_call_thunk, 0, NULL, o);
        emu_on = 0;
        if (*watch_slot != watch_last)
                watch_changes++;
        watch_slot = NULL;
}

static void
do_bindall(void)
{
        discover();
        static char buf[1 << 16];
        int n = sprintf(buf, "[");
        int abi_bad = 0, faults = 0, statics_bad = 0, multi = 0;
        char multiname[80] = "";
        char badname[80] = "";
        for (int i = 0; i < nd; i++) {
                obs o;
                resolve(&D[i], &o);
                const char *t = o.fault ? "FAULT" : sym_name(*D[i].slot);
                /* family tag = what the target name adds to the entry name (entry_<fam>, entry-without-_nt_<fam>_nt) */
                char fam[64] = "?";
                if (t) {
                        size_t el = strlen(D[i].name);
                        int nt = el > 3 && !strcmp(D[i].name + el - 3, "_nt");
                        size_t bl = nt ? el - 3 : el;
                        if (!strncmp(t, D[i].name, bl) && t[bl] == '_') {
                                snprintf(fam, sizeof fam, "%s", t + bl + 1);
                                size_t fl = strlen(fam);
                                if (nt && fl > 3 && !strcmp(fam + fl - 3, "_nt"))
                                        fam[fl - 3] = 0;
                        }
                }
                const char *unit = (!strncmp(D[i].name, "_aes_", 5) || !strncmp(D[i].name, "_XTS_", 5)) ? "aes"
                                   : !strncmp(D[i].name, "_mh_", 4) ? "mh" : !strncmp(D[i].name, "_rolling", 8) ? "rh" : "hash";
                n += sprintf(buf + n, "%s[\"%s\",\"%s\",\"%s\",\"%s\"]", i ? "," : "", D[i].name, t ? t : "UNKNOWN", fam, unit);
                if (o.fault)
                        faults++;
                if (!o.fault && (o.cs_bad || o.rsp_delta || o.df || !o.above_ok)) {
                        abi_bad++;
                        snprintf(badname, sizeof badname, "%s", D[i].name);
                }
                /* the resolver may write exactly its own slot (8 bytes) */
                if (o.static_changed > 8 || o.static_nonbinding)
                        statics_bad++;
                if (watch_changes > 1) { /* the binding must be published by a single store of its final value */
                        multi++;
                        snprintf(multiname, sizeof multiname, "%s", D[i].name);
                }
        }
        sprintf(buf + n, "]");
        ev_begin("BindAll");
        char c[512];
        int k = sprintf(c, "[");
#define FEAT(cond, name) if (cond) k += sprintf(c + k, "%s\"%s\"", k > 1 ? "," : "", name)
        FEAT(v_ecx1 & (1u << 19), "sse4_1"); FEAT(v_ecx1 & (1u << 20), "sse4_2"); FEAT(v_ecx1 & (1u << 27), "osxsave");
        FEAT(v_ecx1 & (1u << 28), "avx"); FEAT(v_ecx1 & (1u << 25), "aesni"); FEAT(v_ecx1 & (1u << 1), "clmul");
        FEAT(v_ebx7 & (1u << 5), "avx2"); FEAT(v_ebx7 & (1u << 16), "avx512f"); FEAT(v_ebx7 & (1u << 17), "avx512dq");
        FEAT(v_ebx7 & (1u << 28), "avx512cd"); FEAT(v_ebx7 & (1u << 30), "avx512bw"); FEAT(v_ebx7 & (1u << 31), "avx512vl");
        FEAT(v_ebx7 & (1u << 29), "sha"); FEAT(v_ecx7 & (1u << 6), "avx512_vbmi2"); FEAT(v_ecx7 & (1u << 8), "gfni");
        FEAT(v_ecx7 & (1u << 9), "vaes"); FEAT(v_ecx7 & (1u << 10), "vpclmulqdq"); FEAT(v_ecx7 & (1u << 11), "avx512_vnni");
        FEAT(v_ecx7 & (1u << 12), "avx512_bitalg"); FEAT(v_ecx7 & (1u << 14), "avx512_vpopcntdq");
        FEAT(v_ecx7 & (1u << 1), "avx512_vbmi");
        FEAT((v_eax1 & 0xfffffff0u) == 0x000406d0u, "avoton");
        FEAT(v_xcr0 & 2, "x_sse"); FEAT(v_xcr0 & 4, "x_avx"); FEAT(v_xcr0 & 0x20, "x_opmask"); FEAT(v_xcr0 & 0x40, "x_zmm_hi256");
        FEAT(v_xcr0 & 0x80, "x_hi16_zmm");
        sprintf(c + k, "]");
        ev_raw("cfg", c);
        ev_raw("b", buf);
        ev_int("abi_bad", abi_bad);
        ev_str("abi_name", badname);
        ev_int("faults", faults);
        ev_int("statics_bad", statics_bad);
        ev_int("multi", multi);
        ev_str("multi_name", multiname);
        ev_end();
}

/* stability: a second resolution under the same CPU gives the same target, and a call through the stub
 * (here: through the re-armed slot with the resolver's effect) does not change the binding again */
static void
do_bindtwice(void)
{
        discover();
        int changed = 0;
        char nm[80] = "";
        for (int i = 0; i < nd; i++) {
                obs o;
                resolve(&D[i], &o);
                void *a = *D[i].slot;
                resolve(&D[i], &o);
                if (*D[i].slot != a) {
                        changed++;
                        snprintf(nm, sizeof nm, "%s", D[i].name);
                }
        }
        ev_begin("BindTwice");
        ev_int("changed", changed);
        ev_str("name", nm);
        ev_end();
}

void
disp_rearm_all(void)
{
        discover();
        for (int i = 0; i < nd; i++)
                *D[i].slot = D[i].mbinit;
}

int
disp_cmd(const cmd *c)
{
        if (!strcmp(c->t[0], "vcpu")) {
                v_eax1 = (uint32_t) cmd_i(c, 1);
                v_ecx1 = (uint32_t) cmd_i(c, 2);
                v_edx1 = (uint32_t) cmd_i(c, 3);
                v_ebx7 = (uint32_t) cmd_i(c, 4);
                v_ecx7 = (uint32_t) cmd_i(c, 5);
                v_xcr0 = (uint32_t) cmd_i(c, 6);
                return 1;
        }
        if (!strcmp(c->t[0], "bindall")) {
                do_bindall();
                return 1;
        }
        if (!strcmp(c->t[0], "bindtwice")) {
                do_bindtwice();
                return 1;
        }
        return 0;
}
