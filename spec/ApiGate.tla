------------------------------- MODULE ApiGate -------------------------------
(***************************************************************************)
(* VERDICT specification of the isal_ wrapper layer (C13, C16).            *)
(*                                                                         *)
(* An entry point is described by its signature: one letter per argument   *)
(* (pointer kinds and scalar kinds, see ArgKinds) and its class:           *)
(* "approved" (SHA-1/256/512 managers, AES key expansion, CBC, GCM, XTS),   *)
(* "nonapproved" (MD5, SM3, multi-hash, rolling hash) or "neutral"         *)
(* (isal_self_tests, version getters).  A call is an argument vector: for  *)
(* a pointer "v" valid, "n" NULL, "x" non-NULL but inaccessible, "e" (XTS) *)
(* data key equal to tweak key; for a scalar its value.                    *)
(*                                                                         *)
(* State: the FIPS self-test verdict, selfTest \in {notrun, passed,        *)
(* failed}.  Outcome of a call: return code, whether cryptographic work    *)
(* was done (an internal dispatched function entered or an argument object *)
(* changed), the verdict afterwards.                                       *)
(***************************************************************************)
EXTENDS Naturals, Integers, Sequences, FiniteSets

ERR == [ NONE |-> 0, NULL_SRC |-> 2000, NULL_DST |-> 2001, NULL_CTX |-> 2002, NULL_MGR |-> 2003, NULL_KEY |-> 2004,
         NULL_EXP_KEY |-> 2005, NULL_IV |-> 2006, NULL_AUTH |-> 2007, NULL_AAD |-> 2008, CIPH_LEN |-> 2009,
         AUTH_TAG_LEN |-> 2010, INVALID_FLAGS |-> 2011, ALREADY_PROCESSING |-> 2012, ALREADY_COMPLETED |-> 2013,
         XTS_NULL_TWEAK |-> 2014, XTS_SAME_KEYS |-> 2015, SELF_TEST |-> 2016, FIPS_INVALID_ALGO |-> 2017,
         WINDOW_SIZE |-> 2018, NULL_OFFSET |-> 2019, NULL_MATCH |-> 2020, NULL_MASK |-> 2021, NULL_INIT_VAL |-> 2022,
         FIPS_DISABLED |-> 2023 ]

\* argument tokens: pointers are PVALID / PNULL / PNOACC (non-NULL, inaccessible) / PSAME (XTS: equal to the
\* other key); scalars are their value, BIG for anything >= 2^31
PVALID == 1
PNULL == 0
PNOACC == 2
PSAME == 3
BIG == -1
PointerLetters == {"G","H","h","I","O","K","C","V","A","T","k","E","e","S","X","y","z","Y","Z","W","M","D","d","R","r","f","m","Q"}

\* error codes a missing pointer of each kind may be reported with (names of include/isal_crypto_api.h)
NullCodes(L) ==
  CASE L = "G" -> {ERR.NULL_MGR}
    [] L \in {"H", "h", "C", "M", "R"} -> {ERR.NULL_CTX}
    [] L \in {"K", "E", "e", "X", "Y", "Z"} -> {ERR.NULL_EXP_KEY}
    [] L \in {"k", "y", "z"} -> {ERR.NULL_KEY}
    [] L = "I" -> {ERR.NULL_SRC}
    [] L = "O" -> {ERR.NULL_DST}
    [] L \in {"V", "S"} -> {ERR.NULL_IV}
    [] L = "A" -> {ERR.NULL_AAD}
    [] L = "T" -> {ERR.NULL_AUTH}
    [] L \in {"D", "d"} -> {ERR.NULL_AUTH, ERR.NULL_DST}
    [] L = "W" -> {ERR.XTS_NULL_TWEAK}
    [] L = "r" -> {ERR.NULL_INIT_VAL}
    [] L = "f" -> {ERR.NULL_OFFSET}
    [] L = "m" -> {ERR.NULL_MATCH}
    [] L = "Q" -> {ERR.NULL_MASK}

\* out-of-domain scalars (alg tags the entry: cbc lengths are multiples of 16, XTS units 16..2^24, ...)
ScalarCodes(L, alg, v) ==
  CASE L = "l" /\ alg \in {"cbcenc", "cbcdec"} /\ v # BIG /\ v % 16 # 0 -> {ERR.CIPH_LEN}
    [] L = "L" /\ (v = BIG \/ v < 16 \/ v > 16777216) -> {ERR.CIPH_LEN}
    [] L = "t" /\ v \notin {8, 12, 16} -> {ERR.AUTH_TAG_LEN}
    [] L = "w" /\ (v = BIG \/ v > 48) -> {ERR.WINDOW_SIZE}
    [] OTHER -> {}

\* a signature is a sequence of one-letter strings
Letter(sig, i) == sig[i]
\* A flags word outside FIRST|UPDATE|LAST|ENTIRE is judged by the manager, not by the wrapper's guard block:
\* the refusal is reported through the context (error field, *ctx_out = ctx_in; property C11), so the context
\* and the ctx_out slot legitimately change.
BadFlags(sig, args) == \E i \in 1..Len(args) : Letter(sig, i) = "F" /\ (args[i] = BIG \/ args[i] > 3)
\* all error codes that apply to this argument vector
BadCodes(sig, alg, args) ==
  UNION {IF Letter(sig, i) \in PointerLetters
         THEN (IF args[i] = PNULL THEN NullCodes(Letter(sig, i)) ELSE {})
         ELSE ScalarCodes(Letter(sig, i), alg, args[i]) : i \in 1..Len(args)}
SameKeys(sig, args) == \E i \in 1..Len(args) : Letter(sig, i) \in PointerLetters /\ args[i] = PSAME
HasInaccessible(sig, args) == \E i \in 1..Len(args) : Letter(sig, i) \in PointerLetters /\ args[i] = PNOACC

\* classification of the 72 exported isal_ entry points (FIPS.md: approved = SHA-1/256/512, AES key
\* expansion, CBC, GCM, XTS; everything else computes a non-approved algorithm)
ApprovedEntries == {
   "isal_aes_cbc_dec_128", "isal_aes_cbc_dec_192", "isal_aes_cbc_dec_256", "isal_aes_cbc_enc_128", 
   "isal_aes_cbc_enc_192", "isal_aes_cbc_enc_256", "isal_aes_gcm_dec_128", "isal_aes_gcm_dec_128_finalize", 
   "isal_aes_gcm_dec_128_nt", "isal_aes_gcm_dec_128_update", "isal_aes_gcm_dec_128_update_nt", 
   "isal_aes_gcm_dec_256", "isal_aes_gcm_dec_256_finalize", "isal_aes_gcm_dec_256_nt", 
   "isal_aes_gcm_dec_256_update", "isal_aes_gcm_dec_256_update_nt", "isal_aes_gcm_enc_128", 
   "isal_aes_gcm_enc_128_finalize", "isal_aes_gcm_enc_128_nt", "isal_aes_gcm_enc_128_update", 
   "isal_aes_gcm_enc_128_update_nt", "isal_aes_gcm_enc_256", "isal_aes_gcm_enc_256_finalize", 
   "isal_aes_gcm_enc_256_nt", "isal_aes_gcm_enc_256_update", "isal_aes_gcm_enc_256_update_nt", 
   "isal_aes_gcm_init_128", "isal_aes_gcm_init_256", "isal_aes_gcm_pre_128", "isal_aes_gcm_pre_256", 
   "isal_aes_keyexp_128", "isal_aes_keyexp_192", "isal_aes_keyexp_256", "isal_aes_xts_dec_128", 
   "isal_aes_xts_dec_128_expanded_key", "isal_aes_xts_dec_256", "isal_aes_xts_dec_256_expanded_key", 
   "isal_aes_xts_enc_128", "isal_aes_xts_enc_128_expanded_key", "isal_aes_xts_enc_256", 
   "isal_aes_xts_enc_256_expanded_key", "isal_sha1_ctx_mgr_flush", "isal_sha1_ctx_mgr_init", 
   "isal_sha1_ctx_mgr_submit", "isal_sha256_ctx_mgr_flush", "isal_sha256_ctx_mgr_init", 
   "isal_sha256_ctx_mgr_submit", "isal_sha512_ctx_mgr_flush", "isal_sha512_ctx_mgr_init", 
   "isal_sha512_ctx_mgr_submit" }
NonApprovedEntries == {
   "isal_md5_ctx_mgr_flush", "isal_md5_ctx_mgr_init", "isal_md5_ctx_mgr_submit", "isal_mh_sha1_finalize", 
   "isal_mh_sha1_init", "isal_mh_sha1_murmur3_x64_128_finalize", "isal_mh_sha1_murmur3_x64_128_init", 
   "isal_mh_sha1_murmur3_x64_128_update", "isal_mh_sha1_update", "isal_mh_sha256_finalize", 
   "isal_mh_sha256_init", "isal_mh_sha256_update", "isal_rolling_hash2_init", "isal_rolling_hash2_reset", 
   "isal_rolling_hash2_run", "isal_rolling_hashx_mask_gen", "isal_sm3_ctx_mgr_flush", 
   "isal_sm3_ctx_mgr_init", "isal_sm3_ctx_mgr_submit" }
NeutralEntries == {"isal_self_tests", "isal_crypto_get_version", "isal_crypto_get_version_str"}
Approved(entry) == entry \in ApprovedEntries
Neutral(entry) == entry \in NeutralEntries
Known(entry) == entry \in ApprovedEntries \cup NonApprovedEntries \cup NeutralEntries
Class(entry) == IF Neutral(entry) THEN "neutral" ELSE IF Approved(entry) THEN "approved" ELSE "nonapproved"

Verdicts == {"notrun", "passed", "failed"}
VerdictOf(word) == CASE word = 2 -> "notrun" [] word = 0 -> "passed" [] word = 1 -> "failed" [] OTHER -> "corrupt"

(***************************************************************************)
(* Allowed outcomes.  An outcome is [rc, work, after, ran] where work =     *)
(* cryptographic work observed, after = verdict after the call, ran = the   *)
(* self-tests executed during the call, stpass = what they reported.        *)
(***************************************************************************)
\* default build (SAFE_PARAM, no FIPS): C16
OutcomeOkPlain(entry, sig, alg, args, rc, work) ==
  LET bad == BadCodes(sig, alg, args)
  IN IF Neutral(entry) THEN TRUE
     ELSE IF bad # {} THEN rc \in bad /\ ~work
     ELSE IF BadFlags(sig, args) THEN rc = ERR.INVALID_FLAGS
     ELSE rc = 0

\* FIPS build: C13 (parameter checks come first, then the key-equality test, then the gate)
OutcomeOkFips(entry, sig, alg, args, before, rc, work, after, ran, stpass) ==
  LET bad == BadCodes(sig, alg, args)
      cls == Class(entry)
      okrc == IF BadFlags(sig, args) THEN ERR.INVALID_FLAGS ELSE 0     \* the manager refuses the flags after the gate
  IN CASE cls = "nonapproved" -> rc = ERR.FIPS_INVALID_ALGO /\ ~work
       [] cls = "neutral" -> ~work
       [] OTHER ->
          IF bad # {} THEN rc \in (bad \cup {ERR.SELF_TEST}) /\ ~work
          ELSE IF SameKeys(sig, args) THEN rc = ERR.XTS_SAME_KEYS /\ ~work
          ELSE CASE before = "failed" -> rc = ERR.SELF_TEST /\ ~work /\ after = "failed" /\ ~ran
                 [] before = "passed" -> rc = okrc /\ after = "passed" /\ ~ran
                 [] before = "notrun" -> /\ ran
                                         /\ IF stpass THEN rc = okrc /\ after = "passed"
                                            ELSE rc = ERR.SELF_TEST /\ ~work /\ after = "failed"
                 [] OTHER -> FALSE

\* the fail-closed core of C13, stated on its own: work implies a passed verdict
FailClosed(work, after) == work => after = "passed"

=============================================================================
