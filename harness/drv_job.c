/* drv_job.c - the lane scheduler called directly (the *_mb_mgr_{init,submit,flush}_* assembly entry points that the
 * context layer normally hides): jobs are whole blocks with a caller-chosen chaining value.
 *   jmgr <alg> <fam> <njobs> | jsub <j> <b> <off> <nblocks> <place> | jflush | jdrain <n> | jend */
#define _GNU_SOURCE
#include "core.h"
#include <string.h>
#include <stdlib.h>
#include <sha1_mb.h>
#include <sha256_mb.h>
#include <sha512_mb.h>
#include <md5_mb.h>
#include <sm3_mb.h>

struct jalg {
        const char *name;
        size_t mgr_size, job_size, o_buf, o_len, o_dig, o_status, len_bytes;
        int wbytes, nwords, block, native;
        uint64_t iv[8];
};
#define JDEF(name, JOB, MGR, W, NW, BLK, NATIVE, ...)                                                           \
        { #name, sizeof(MGR), sizeof(JOB), offsetof(JOB, buffer), offsetof(JOB, len), offsetof(JOB, result_digest), \
          offsetof(JOB, status), sizeof(((JOB *) 0)->len), W, NW, BLK, NATIVE, { __VA_ARGS__ } }
static const struct jalg jalgs[] = {
        JDEF(sha1, ISAL_SHA1_JOB, ISAL_SHA1_MB_JOB_MGR, 4, 5, 64, 1, 0x67452301, 0xefcdab89, 0x98badcfe, 0x10325476, 0xc3d2e1f0),
        JDEF(sha256, ISAL_SHA256_JOB, ISAL_SHA256_MB_JOB_MGR, 4, 8, 64, 1, 0x6a09e667, 0xbb67ae85, 0x3c6ef372, 0xa54ff53a, 0x510e527f, 0x9b05688c, 0x1f83d9ab, 0x5be0cd19),
        JDEF(sha512, ISAL_SHA512_JOB, ISAL_SHA512_MB_JOB_MGR, 8, 8, 128, 1, 0x6a09e667f3bcc908ull, 0xbb67ae8584caa73bull, 0x3c6ef372fe94f82bull, 0xa54ff53a5f1d36f1ull, 0x510e527fade682d1ull, 0x9b05688c2b3e6c1full, 0x1f83d9abfb41bd6bull, 0x5be0cd19137e2179ull),
        JDEF(md5, ISAL_MD5_JOB, ISAL_MD5_MB_JOB_MGR, 4, 4, 64, 0, 0x67452301, 0xefcdab89, 0x98badcfe, 0x10325476),
        JDEF(sm3, ISAL_SM3_JOB, ISAL_SM3_MB_JOB_MGR, 4, 8, 64, 1, 0x7380166f, 0x4914b2b9, 0x172442d7, 0xda8a0600, 0xa96f30bc, 0x163138aa, 0xe38dee4d, 0xb0fb0e4e),
};
#define MAXJ 72
static __thread const struct jalg *J;
static __thread void *f_init, *f_submit, *f_flush;
static __thread gbuf mgr_g, job_g[MAXJ], data_g[MAXJ];
static __thread int live[MAXJ], njobs;

static int
job_index(void *p)
{
        if (!p)
                return -1;
        for (int i = 0; i < njobs; i++)
                if (job_g[i].p == (uint8_t *) p)
                        return i;
        return -2;
}

static void
dig_hex(int j, char *out)
{
        static const char hx[] = "0123456789abcdef";
        const uint8_t *d = job_g[j].p + J->o_dig;
        int n = 0;
        for (int w = 0; w < J->nwords; w++)
                for (int b = 0; b < J->wbytes; b++) {
                        uint8_t v = J->native ? d[w * J->wbytes + (J->wbytes - 1 - b)] : d[w * J->wbytes + b];
                        out[n++] = hx[v >> 4];
                        out[n++] = hx[v & 15];
                }
        out[n] = 0;
}

static void
reg_all(void)
{
        vc_begin();
        vc_output("mgr", &mgr_g);
        for (int i = 0; i < njobs; i++) {
                vc_output("job", &job_g[i]);
                if (live[i])
                        vc_input("data", &data_g[i]);
        }
}

static void
emit_ret(const char *ev, int j, int ret, const char *segjson, const obs *o)
{
        ev_begin(ev);
        ev_int("j", j);
        if (segjson)
                ev_raw("seg", segjson);
        ev_int("ret", ret);
        if (ret >= 0 && !o->fault) {
                char hx[160];
                dig_hex(ret, hx);
                ev_str("dig", hx);
                ev_int("jst", (long long) *(uint32_t *) (job_g[ret].p + J->o_status));
        } else {
                ev_str("dig", "");
                ev_int("jst", -1);
        }
        ev_obs(o);
        ev_end();
        if (ret >= 0 && live[ret]) {
                gbuf_free(&data_g[ret]);
                live[ret] = 0;
        }
}

int
job_cmd(const cmd *c)
{
        if (!strcmp(c->t[0], "jmgr")) {
                const char *alg = c->t[1], *fam = c->t[2];
                njobs = (int) cmd_i(c, 3);
                J = NULL;
                for (size_t i = 0; i < sizeof jalgs / sizeof jalgs[0]; i++)
                        if (!strcmp(jalgs[i].name, alg))
                                J = &jalgs[i];
                if (!J || njobs > MAXJ)
                        die("jmgr: bad arguments");
                char nm[96];
                const char *fi = fam, *fs = fam, *ff = fam;
                if (!strcmp(fam, "avx"))
                        fi = "sse";
                else if (!strcmp(fam, "sse_ni"))
                        fi = "sse";
                else if (!strcmp(fam, "avx512_ni")) {
                        fi = "avx512";
                        fs = "avx512";
                }
                if (!strcmp(fam, "sb_sse4")) {
                        f_init = sym_lookup("_sha512_sb_mgr_init_sse4");
                        f_submit = sym_lookup("_sha512_sb_mgr_submit_sse4");
                        f_flush = sym_lookup("_sha512_sb_mgr_flush_sse4");
                } else {
                        snprintf(nm, sizeof nm, "_%s_mb_mgr_init_%s", alg, fi);
                        f_init = sym_lookup(nm);
                        snprintf(nm, sizeof nm, "_%s_mb_mgr_submit_%s", alg, fs);
                        f_submit = sym_lookup(nm);
                        snprintf(nm, sizeof nm, "_%s_mb_mgr_flush_%s", alg, ff);
                        f_flush = sym_lookup(nm);
                }
                if (!f_init || !f_submit || !f_flush)
                        die("no scheduler entry points for %s/%s", alg, fam);
                gbuf_alloc(&mgr_g, J->mgr_size, PL_MID, 0);
                hidden_fill(mgr_g.p, J->mgr_size, 91);
                for (int i = 0; i < njobs; i++) {
                        gbuf_alloc(&job_g[i], J->job_size, PL_MID, 0);
                        hidden_fill(job_g[i].p, J->job_size, 92 + (uint32_t) i);
                        live[i] = 0;
                }
                obs o;
                uint64_t a[1] = { (uint64_t) mgr_g.p };
                reg_all();
                vcall(f_init, 1, a, &o);
                ev_begin("JReset");
                ev_str("alg", alg);
                ev_str("fam", fam);
                ev_int("njobs", njobs);
                ev_obs(&o);
                ev_end();
                return 1;
        }
        if (!strcmp(c->t[0], "jsub")) {
                int j = (int) cmd_i(c, 1);
                uint32_t b = (uint32_t) cmd_i(c, 2);
                uint64_t off = (uint64_t) cmd_i(c, 3), nblk = (uint64_t) cmd_i(c, 4);
                int pl;
                unsigned al;
                if (j >= njobs || live[j])
                        die("jsub: job %d unavailable", j);
                gbuf_parse_place(c->t[5], &pl, &al);
                gbuf_alloc(&data_g[j], nblk * (uint64_t) J->block, pl, al);
                pat_fill(data_g[j].p, b, off, nblk * (uint64_t) J->block);
                live[j] = 1;
                uint8_t *jp = job_g[j].p;
                *(uint8_t **) (jp + J->o_buf) = data_g[j].p;
                if (J->len_bytes == 8)
                        *(uint64_t *) (jp + J->o_len) = nblk;
                else
                        *(uint32_t *) (jp + J->o_len) = (uint32_t) nblk;
                for (int w = 0; w < J->nwords; w++) {
                        if (J->wbytes == 8)
                                ((uint64_t *) (jp + J->o_dig))[w] = J->iv[w];
                        else
                                ((uint32_t *) (jp + J->o_dig))[w] = (uint32_t) J->iv[w];
                }
                *(uint32_t *) (jp + J->o_status) = ISAL_STS_UNKNOWN;
                obs o;
                uint64_t a[2] = { (uint64_t) mgr_g.p, (uint64_t) jp };
                reg_all();
                uint64_t r = vcall(f_submit, 2, a, &o);
                char sb[96];
                snprintf(sb, sizeof sb, "[%u,%llu,%llu]", b, (unsigned long long) (off & (PAT_PERIOD - 1)), (unsigned long long) nblk);
                emit_ret("JSubmit", j, o.fault ? -1 : job_index((void *) r), sb, &o);
                if (o.fault)
                        behaviour_abort("fault in scheduler submit");
                return 1;
        }
        if (!strcmp(c->t[0], "jflush") || !strcmp(c->t[0], "jdrain")) {
                int lim = !strcmp(c->t[0], "jdrain") ? (int) cmd_i(c, 1) : 1;
                for (int k = 0; k < lim; k++) {
                        obs o;
                        uint64_t a[1] = { (uint64_t) mgr_g.p };
                        reg_all();
                        uint64_t r = vcall(f_flush, 1, a, &o);
                        int ri = o.fault ? -1 : job_index((void *) r);
                        emit_ret("JFlush", -1, ri, NULL, &o);
                        if (o.fault)
                                behaviour_abort("fault in scheduler flush");
                        if (ri == -1)
                                break;
                }
                return 1;
        }
        if (!strcmp(c->t[0], "jend")) {
                for (int i = 0; i < njobs; i++) {
                        if (live[i])
                                gbuf_free(&data_g[i]);
                        live[i] = 0;
                        gbuf_free(&job_g[i]);
                }
                gbuf_free(&mgr_g);
                njobs = 0;
                return 1;
        }
        return 0;
}
