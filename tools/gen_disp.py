#!/usr/bin/env python3
"""Enumeration of architecturally consistent CPU/OS configurations for the dispatch driver (C12)."""
import itertools

BIT1C = {"sse4_1": 19, "sse4_2": 20, "osxsave": 27, "avx": 28, "aesni": 25, "clmul": 1}
BIT7B = {"avx2": 5, "avx512f": 16, "avx512dq": 17, "avx512cd": 28, "sha": 29, "avx512bw": 30, "avx512vl": 31}
BIT7C = {"avx512_vbmi": 1, "avx512_vbmi2": 6, "gfni": 8, "vaes": 9, "vpclmulqdq": 10, "avx512_vnni": 11, "avx512_bitalg": 12,
         "avx512_vpopcntdq": 14}
XCR = {"x_sse": 1, "x_avx": 2, "x_opmask": 5, "x_zmm_hi256": 6, "x_hi16_zmm": 7}
G1X = ["avx512vl", "avx512bw", "avx512cd", "avx512dq"]
G2FREE = ["gfni", "vaes", "vpclmulqdq"]
G2DEP = ["avx512_vbmi2", "avx512_vnni", "avx512_bitalg", "avx512_vpopcntdq"]


def vcpu_cmd(feats, noise=False):
    """noise: every CPUID bit that is not part of the configuration space is set instead of cleared, so a resolver that
    looks at a bit it is not supposed to test (wrong mask constant) behaves differently"""
    feats = list(feats)
    if noise and "avx512f" in feats and "avx512_vbmi" not in feats:
        feats.append("avx512_vbmi")
    eax1 = 0x000406d0 | 8 if "avoton" in feats else 0x000806F8
    ecx1 = sum(1 << b for n, b in BIT1C.items() if n in feats)
    edx1 = 1 << 26
    ebx7 = sum(1 << b for n, b in BIT7B.items() if n in feats)
    ecx7 = sum(1 << b for n, b in BIT7C.items() if n in feats)
    if noise:
        ecx1 |= 0xFFFFFFFF & ~sum(1 << b for b in BIT1C.values())
        edx1 = 0xFFFFFFFF
        ebx7 |= 0xFFFFFFFF & ~sum(1 << b for b in BIT7B.values())
        ecx7 |= 0xFFFFFFFF & ~sum(1 << b for b in BIT7C.values())
    xcr0 = sum(1 << b for n, b in XCR.items() if n in feats) | 1
    return "vcpu %d %d %d %d %d %d" % (eax1, ecx1, edx1, ebx7, ecx7, xcr0 if "osxsave" in feats else 0)


def subsets(xs, collapse):
    if not collapse:
        for k in range(len(xs) + 1):
            for c in itertools.combinations(xs, k):
                yield list(c)
    else:
        yield []
        yield list(xs)
        for x in xs:
            yield [y for y in xs if y != x]
        if len(xs) > 2:
            yield [xs[0]]


def configs(collapse=True):
    out = []
    levels = [[], ["sse4_1"], ["sse4_1", "sse4_2"], ["sse4_1", "sse4_2", "avx"], ["sse4_1", "sse4_2", "avx", "avx2"]]
    base_untested = ["aesni", "clmul"]
    for lvl in levels:
        for g2 in subsets(G2FREE, collapse):
            for sha in ([], ["sha"]):
                for avot in ([], ["avoton"]) if "avx" not in lvl else ([],):
                    for os_ in os_states(lvl, False):
                        out.append(lvl + g2 + sha + avot + os_ + base_untested)
    top = ["sse4_1", "sse4_2", "avx", "avx2", "avx512f"]
    for g1 in subsets(G1X, collapse):
        for g2f in subsets(G2FREE, collapse):
            for g2d in subsets(G2DEP, collapse):
                for sha in ([], ["sha"]):
                    for os_ in os_states(top, True):
                        out.append(top + g1 + g2f + g2d + sha + os_ + base_untested)
    # de-duplicate
    seen, res = set(), []
    for c in out:
        k = tuple(sorted(c))
        if k not in seen:
            seen.add(k)
            res.append(c)
    return res


def os_states(lvl, has_f):
    st = [[], ["osxsave"], ["osxsave", "x_sse"]]
    if "avx" in lvl:
        st.append(["osxsave", "x_sse", "x_avx"])
        if has_f:
            st.append(["osxsave", "x_sse", "x_avx", "x_opmask", "x_zmm_hi256", "x_hi16_zmm"])
    return st
