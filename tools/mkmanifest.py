#!/usr/bin/env python3
"""Regenerates MANIFEST.json from the claim table below (single source of truth for the interface)."""
import json, os
V = os.path.dirname(os.path.dirname(os.path.abspath(__file__)))
props = [json.loads(l) for l in open(os.path.join(V, "properties.jsonl"))]
NOTE = ("every functional check also runs slim passes on the FIPS_MODE=y (legacy entry points), SAFE_DATA=n and lib_debug=1 builds; trusted base: TLC/SANY, CommunityModules, JDK MessageDigest/AES and the Java primitive overrides (self-tested by "
        "setup_cmd against published vectors and the TLA+ definitions), the harness trampoline and its projection of public "
        "structs; the host CPU executes every family")
CLAIMS = {
 "C01": ("model_checking", "TLC trace validation of recorded executions of all 28 hash family instances (+ isal_/legacy entry points) against the verdict spec HashAPI; expected digests computed by TLC from the TLA+ definition of the standard hashes (HashStd) over the stream the spec recorded", "5 C01", "TLA+ spec (HashAPI/HashStd) + TLC trace validation"),
 "C06": ("model_checking", "every recorded submit/flush event must be an action of HashAPI: returned context was held and leaves the manager, flush returns NULL iff nothing held, status idle/complete per LAST, foreign contexts/user data untouched, held <= lanes", "5 C06", "TLA+ spec (HashAPI) + TLC trace validation"),
 "C11": ("model_checking", "refused submits injected into valid histories and the refusal matrix (every context state x every flags word, message finished afterwards); TLC decides from the spec state which calls must be refused, with which codes, that nothing but the error field changes and that later valid calls are not reported failed", "5 C11", "TLA+ spec (HashAPI) + TLC trace validation"),
 "C02": ("model_checking", "SP 800-38D written as an executable TLA+ definition (AesModes, FIPS 197 in Aes.tla); TLC recomputes ciphertext and tag of every recorded one-shot call over the enumerated call space of all four families x nt x key size x direction", "5 C02", "executable TLA+ definition + TLC trace validation"),
 "C07": ("model_checking", "GCM streaming state machine in TLA+ (position, ciphertext so far); TLC checks every update's output against the key stream at the spec's position and the final tag against the one-shot definition for the carry table, sub-block runs, counter-wrap sweep and random compositions, per family", "5 C07", "TLA+ state machine + TLC trace validation"),
 "C03": ("model_checking", "IEEE 1619 XTS incl. ciphertext stealing as an executable TLA+ definition; TLC recomputes every recorded call (3 families x raw/expanded x enc/dec x 2 key sizes x every tail class; lengths < 16 must leave buffers untouched; data units up to the legal maximum of 2^24 bytes: first blocks, return code, tail)", "5 C03", "executable TLA+ definition + TLC trace validation"),
 "C04": ("model_checking", "FIPS 197 key expansion and SP 800-38A CBC as executable TLA+ definitions; schedules and CBC outputs of every family compared byte for byte by TLC", "5 C04", "executable TLA+ definition + TLC trace validation"),
}
EXTRA = os.path.join(V, "tools", "claims_extra.json")
if os.path.exists(EXTRA):
    CLAIMS.update({k: tuple(v) for k, v in json.load(open(EXTRA)).items()})
hooks = json.load(open(os.path.join(V, "tools", "hooks.json"))) if os.path.exists(os.path.join(V, "tools", "hooks.json")) else []
checks = []
for pid in sorted(CLAIMS):
    lvl, text, ref, tech = CLAIMS[pid][:4]
    checks.append({"property_id": pid, "quick_cmd": "python3 tools/check.py %s --tier quick" % pid,
                   "thorough_cmd": "python3 tools/check.py %s --tier thorough" % pid,
                   "evidence_file": "evidence/%s.json" % pid,
                   "replay_cmd_template": "python3 tools/check.py %s --replay {path}" % pid, "engine": "tlc-trace",
                   "level_claimed": {"category": lvl, "text": text, "design_ref": "DESIGN.md section " + ref},
                   "level_note": NOTE, "technique": tech})
NA = {}
if os.path.exists(os.path.join(V, "tools", "not_applicable.json")):
    NA = json.load(open(os.path.join(V, "tools", "not_applicable.json")))
m = {"version": 1, "setup_cmd": "sh tools/setup.sh",
     "hooks": {"guard": "ISAL_CRYPTO_VERIF",
               "enable": "tools/build.py builds a scratch copy of /repo's working tree with make -f Makefile.unx lib D=ISAL_CRYPTO_VERIF [FIPS_MODE=y]",
               "baseline_off_cmd": "cd /repo && make -j8 check", "source_commits": hooks, "add_only": True},
     "engines": [{"name": "tlc-trace", "path": "tools/check.py", "serves_properties": sorted(CLAIMS),
                  "kind_free_text": "TLA+ specifications under spec/ model-checked with TLC and bound to the implementation by trace validation of executions recorded by the C harness under harness/ (both directions: TLC-generated behaviours replayed into the code, recorded executions validated against the spec)"}],
     "checks": checks,
     "notes": "See DESIGN.md. known_findings.jsonl lists fixed/known genuine defects.",
     "not_applicable": [{"property_id": p["id"], "reason": NA.get(p["id"], "check not built yet (planned, see DESIGN.md section 5)")}
                        for p in props if p["id"] not in CLAIMS]}
json.dump(m, open(os.path.join(V, "MANIFEST.json"), "w"), indent=1)
print("claimed:", " ".join(sorted(CLAIMS)))
