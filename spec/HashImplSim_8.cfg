SPECIFICATION HSpec
CONSTANTS
  Ctx <- SimCtx9
  NLanes = 8
  B = 4
  P = 1
  SegLens = {0, 1, 3, 4, 5, 9}
  MaxTotal = 60
  NoCtx <- SimNone
  SbThreshold = 1
  TrackStream = FALSE
  DumpLen <- DumpLen56
INVARIANT DumpAtEnd
CHECK_DEADLOCK FALSE
