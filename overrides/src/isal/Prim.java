package isal;

import java.security.MessageDigest;
import java.util.Arrays;
import javax.crypto.Cipher;
import javax.crypto.spec.SecretKeySpec;

import tlc2.overrides.ITLCOverrides;
import tlc2.overrides.TLAPlusOperator;
import tlc2.value.impl.BoolValue;
import tlc2.value.impl.IntValue;
import tlc2.value.impl.StringValue;
import tlc2.value.impl.TupleValue;
import tlc2.value.impl.Value;

/**
 * Java bodies for the primitive operators declared in spec/Prim.tla. Only block primitives and bulk
 * byte plumbing live here; modes, paddings, carries and state machines are TLA+. Every operator is
 * cross-checked by spec/PrimSelfTest.tla (published vectors + TLA+ definitions + JDK) at setup time.
 */
public class Prim implements ITLCOverrides {
    @SuppressWarnings("rawtypes")
    @Override
    public Class[] get() {
        return new Class[] { Prim.class };
    }

    // ------------------------------------------------------------------ value plumbing
    static byte[] bytes(Value v) {
        TupleValue t = (TupleValue) v.toTuple();
        if (t == null)
            throw new RuntimeException("Prim: expected a sequence of bytes, got " + v);
        byte[] r = new byte[t.elems.length];
        for (int i = 0; i < r.length; i++)
            r[i] = (byte) ((IntValue) t.elems[i]).val;
        return r;
    }

    static final IntValue[] BYTE = new IntValue[256];
    static {
        for (int i = 0; i < 256; i++)
            BYTE[i] = IntValue.gen(i);
    }

    static Value seq(byte[] b) {
        Value[] e = new Value[b.length];
        for (int i = 0; i < b.length; i++)
            e[i] = BYTE[b[i] & 0xff];
        return new TupleValue(e);
    }

    static int i(Value v) {
        return ((IntValue) v).val;
    }

    static String s(Value v) {
        return ((StringValue) v).val.toString();
    }

    static final char[] HX = "0123456789abcdef".toCharArray();

    static String hex(byte[] b) {
        char[] c = new char[b.length * 2];
        for (int i = 0; i < b.length; i++) {
            c[2 * i] = HX[(b[i] >> 4) & 15];
            c[2 * i + 1] = HX[b[i] & 15];
        }
        return new String(c);
    }

    static byte[] unhex(String h) {
        byte[] r = new byte[h.length() / 2];
        for (int i = 0; i < r.length; i++)
            r[i] = (byte) Integer.parseInt(h.substring(2 * i, 2 * i + 2), 16);
        return r;
    }

    // ------------------------------------------------------------------ pattern data (same as harness/core.h)
    static long splitmix64(long x) {
        x += 0x9E3779B97F4A7C15L;
        x = (x ^ (x >>> 30)) * 0xBF58476D1CE4E5B9L;
        x = (x ^ (x >>> 27)) * 0x94D049BB133111EBL;
        return x ^ (x >>> 31);
    }

    static final int PERIOD = 1 << 20;

    static byte patByte(int b, long i) {
        if (b == 0)
            return 0;
        if (b == 1)
            return (byte) 0xff;
        i &= (PERIOD - 1);
        return (byte) (splitmix64(((long) b << 32) | (i >>> 3)) >>> (8 * (i & 7)));
    }

    static void patFill(byte[] dst, int dpos, int b, long off, int len) {
        for (int k = 0; k < len; k++)
            dst[dpos + k] = patByte(b, off + k);
    }

    @TLAPlusOperator(identifier = "PatBytes", module = "Prim", warn = false)
    public static Value patBytes(final Value b, final Value off, final Value len) {
        byte[] r = new byte[i(len)];
        patFill(r, 0, i(b), i(off), r.length);
        return seq(r);
    }

    @TLAPlusOperator(identifier = "ToHex", module = "Prim", warn = false)
    public static Value toHex(final Value v) {
        return new StringValue(hex(bytes(v)));
    }

    @TLAPlusOperator(identifier = "FromHex", module = "Prim", warn = false)
    public static Value fromHex(final Value v) {
        return seq(unhex(s(v)));
    }

    @TLAPlusOperator(identifier = "XorBytes", module = "Prim", warn = false)
    public static Value xorBytes(final Value a, final Value b) {
        byte[] x = bytes(a), y = bytes(b);
        if (x.length != y.length)
            throw new RuntimeException("XorBytes: lengths differ " + x.length + " " + y.length);
        byte[] r = new byte[x.length];
        for (int k = 0; k < r.length; k++)
            r[k] = (byte) (x[k] ^ y[k]);
        return seq(r);
    }

    /** HexHas(hay, needle): needle (hex of >= 1 byte) occurs in hay at a byte boundary. */
    @TLAPlusOperator(identifier = "HexHas", module = "Prim", warn = false)
    public static Value hexHas(final Value hay, final Value needle) {
        String h = s(hay), n = s(needle);
        int from = 0;
        while (true) {
            int k = h.indexOf(n, from);
            if (k < 0)
                return BoolValue.ValFalse;
            if ((k & 1) == 0)
                return BoolValue.ValTrue;
            from = k + 1;
        }
    }

    // ------------------------------------------------------------------ AES (JDK), checked against spec/Aes.tla
    static byte[] aesEcb(byte[] key, byte[] blk, boolean enc) {
        try {
            Cipher c = Cipher.getInstance("AES/ECB/NoPadding");
            c.init(enc ? Cipher.ENCRYPT_MODE : Cipher.DECRYPT_MODE, new SecretKeySpec(key, "AES"));
            return c.doFinal(blk);
        } catch (Exception e) {
            throw new RuntimeException(e);
        }
    }

    // small cache of cipher objects: key -> initialised Cipher (enc)
    static final java.util.concurrent.ConcurrentHashMap<String, ThreadLocal<Cipher[]>> CACHE = new java.util.concurrent.ConcurrentHashMap<>();

    static Cipher cipher(byte[] key, boolean enc) {
        String k = hex(key);
        ThreadLocal<Cipher[]> tl = CACHE.computeIfAbsent(k, kk -> ThreadLocal.withInitial(() -> {
            try {
                Cipher e = Cipher.getInstance("AES/ECB/NoPadding");
                e.init(Cipher.ENCRYPT_MODE, new SecretKeySpec(key, "AES"));
                Cipher d = Cipher.getInstance("AES/ECB/NoPadding");
                d.init(Cipher.DECRYPT_MODE, new SecretKeySpec(key, "AES"));
                return new Cipher[] { e, d };
            } catch (Exception ex) {
                throw new RuntimeException(ex);
            }
        }));
        if (CACHE.size() > 4096)
            CACHE.clear();
        return tl.get()[enc ? 0 : 1];
    }

    @TLAPlusOperator(identifier = "AesEncBlock", module = "Prim", warn = false)
    public static Value aesEncBlock(final Value key, final Value blk) {
        try {
            return seq(cipher(bytes(key), true).doFinal(bytes(blk)));
        } catch (Exception e) {
            throw new RuntimeException(e);
        }
    }

    @TLAPlusOperator(identifier = "AesDecBlock", module = "Prim", warn = false)
    public static Value aesDecBlock(final Value key, final Value blk) {
        try {
            return seq(cipher(bytes(key), false).doFinal(bytes(blk)));
        } catch (Exception e) {
            throw new RuntimeException(e);
        }
    }

    // ------------------------------------------------------------------ GF(2^128), SP 800-38D 6.3
    @TLAPlusOperator(identifier = "GfMul128", module = "Prim", warn = false)
    public static Value gfMul128(final Value xv, final Value yv) {
        byte[] x = bytes(xv), y = bytes(yv);
        long zh = 0, zl = 0;
        long vh = be64(y, 0), vl = be64(y, 8);
        for (int k = 0; k < 128; k++) {
            int bit = (x[k >> 3] >> (7 - (k & 7))) & 1;
            if (bit != 0) {
                zh ^= vh;
                zl ^= vl;
            }
            boolean lsb = (vl & 1) != 0;
            vl = (vl >>> 1) | (vh << 63);
            vh = vh >>> 1;
            if (lsb)
                vh ^= 0xE100000000000000L;
        }
        byte[] r = new byte[16];
        putBe64(r, 0, zh);
        putBe64(r, 8, zl);
        return seq(r);
    }

    static long be64(byte[] b, int o) {
        long v = 0;
        for (int k = 0; k < 8; k++)
            v = (v << 8) | (b[o + k] & 0xff);
        return v;
    }

    static void putBe64(byte[] b, int o, long v) {
        for (int k = 7; k >= 0; k--) {
            b[o + k] = (byte) v;
            v >>>= 8;
        }
    }

    static int be32(byte[] b, int o) {
        return ((b[o] & 0xff) << 24) | ((b[o + 1] & 0xff) << 16) | ((b[o + 2] & 0xff) << 8) | (b[o + 3] & 0xff);
    }

    static void putBe32(byte[] b, int o, int v) {
        b[o] = (byte) (v >>> 24);
        b[o + 1] = (byte) (v >>> 16);
        b[o + 2] = (byte) (v >>> 8);
        b[o + 3] = (byte) v;
    }

    static int le32(byte[] b, int o) {
        return ((b[o + 3] & 0xff) << 24) | ((b[o + 2] & 0xff) << 16) | ((b[o + 1] & 0xff) << 8) | (b[o] & 0xff);
    }

    static void putLe32(byte[] b, int o, int v) {
        b[o + 3] = (byte) (v >>> 24);
        b[o + 2] = (byte) (v >>> 16);
        b[o + 1] = (byte) (v >>> 8);
        b[o] = (byte) v;
    }

    static long le64(byte[] b, int o) {
        long v = 0;
        for (int k = 7; k >= 0; k--)
            v = (v << 8) | (b[o + k] & 0xff);
        return v;
    }

    static void putLe64(byte[] b, int o, long v) {
        for (int k = 0; k < 8; k++) {
            b[o + k] = (byte) v;
            v >>>= 8;
        }
    }

    // ------------------------------------------------------------------ compression functions
    // state and block are byte sequences in the standard's serialisation
    // (big-endian words for SHA-1/256/512 and SM3, little-endian for MD5).
    @TLAPlusOperator(identifier = "Compress", module = "Prim", warn = false)
    public static Value compress(final Value alg, final Value st, final Value blk) {
        return seq(compress(s(alg), bytes(st), bytes(blk), 0));
    }

    static byte[] compress(String alg, byte[] st, byte[] b, int off) {
        switch (alg) {
        case "sha1":
            return Hashes.sha1(st, b, off);
        case "sha256":
            return Hashes.sha256(st, b, off);
        case "sha512":
            return Hashes.sha512(st, b, off);
        case "md5":
            return Hashes.md5(st, b, off);
        case "sm3":
            return Hashes.sm3(st, b, off);
        default:
            throw new RuntimeException("Compress: unknown algorithm " + alg);
        }
    }

    static int blockSize(String alg) {
        return alg.equals("sha512") ? 128 : 64;
    }

    /** Streaming digest of a list of pattern segments <<b, off, lenHi, lenLo>> (len = lenHi*2^20+lenLo). */
    private static final java.util.Map<String, String> DIGEST_CACHE = new java.util.concurrent.ConcurrentHashMap<>();

    @TLAPlusOperator(identifier = "DigestOfSegs", module = "Prim", warn = false)
    public static Value digestOfSegs(final Value alg, final Value segs) {
        String a = s(alg);
        TupleValue t = (TupleValue) segs.toTuple();
        // identical long streams (e.g. every lane of a manager fed the same 2 GiB segment) are digested once
        final String key = a + "|" + segs.toString();
        String hit = DIGEST_CACHE.get(key);
        if (hit != null)
            return new StringValue(hit);
        try {
            Object md;
            Hashes.Stream own = null;
            MessageDigest jd = null;
            if (a.equals("sm3"))
                own = new Hashes.Stream("sm3");
            else
                jd = MessageDigest.getInstance(a.equals("sha1") ? "SHA-1" : a.equals("sha256") ? "SHA-256" : a.equals("sha512") ? "SHA-512" : "MD5");
            byte[] period = null;
            int periodB = -1;
            for (Value sv : t.elems) {
                TupleValue sg = (TupleValue) sv.toTuple();
                int b = i(sg.elems[0]);
                long off = i(sg.elems[1]);
                long len = ((long) i(sg.elems[2]) << 20) + i(sg.elems[3]);
                if (len > 4 * PERIOD) {
                    if (periodB != b) {
                        period = new byte[PERIOD];
                        patFill(period, 0, b, 0, PERIOD);
                        periodB = b;
                    }
                    long pos = off & (PERIOD - 1);
                    while (len > 0) {
                        int n = (int) Math.min(len, PERIOD - pos);
                        if (own != null)
                            own.update(period, (int) pos, n);
                        else
                            jd.update(period, (int) pos, n);
                        len -= n;
                        pos = 0;
                    }
                } else {
                    byte[] buf = new byte[(int) len];
                    patFill(buf, 0, b, off, (int) len);
                    if (own != null)
                        own.update(buf, 0, buf.length);
                    else
                        jd.update(buf, 0, buf.length);
                }
            }
            String res = hex(own != null ? own.digest() : jd.digest());
            if (DIGEST_CACHE.size() < 4096)
                DIGEST_CACHE.put(key, res);
            return new StringValue(res);
        } catch (Exception e) {
            throw new RuntimeException(e);
        }
    }

    /** JDK digest of a byte sequence (second implementation, for PrimSelfTest). */
    @TLAPlusOperator(identifier = "JdkDigest", module = "Prim", warn = false)
    public static Value jdkDigest(final Value alg, final Value msg) {
        String a = s(alg);
        try {
            MessageDigest jd = MessageDigest.getInstance(a.equals("sha1") ? "SHA-1" : a.equals("sha256") ? "SHA-256" : a.equals("sha512") ? "SHA-512" : "MD5");
            return seq(jd.digest(bytes(msg)));
        } catch (Exception e) {
            throw new RuntimeException(e);
        }
    }

    // ------------------------------------------------------------------ murmur3 x64 128
    static long rotl64(long x, int r) {
        return (x << r) | (x >>> (64 - r));
    }

    static long fmix64(long k) {
        k ^= k >>> 33;
        k *= 0xff51afd7ed558ccdL;
        k ^= k >>> 33;
        k *= 0xc4ceb9fe1a85ec53L;
        k ^= k >>> 33;
        return k;
    }

    static byte[] murmur(byte[] d, long seed) {
        final long c1 = 0x87c37b91114253d5L, c2 = 0x4cf5ad432745937fL;
        long h1 = seed, h2 = seed;
        int nb = d.length / 16;
        for (int k = 0; k < nb; k++) {
            long k1 = le64(d, 16 * k), k2 = le64(d, 16 * k + 8);
            k1 *= c1;
            k1 = rotl64(k1, 31);
            k1 *= c2;
            h1 ^= k1;
            h1 = rotl64(h1, 27);
            h1 += h2;
            h1 = h1 * 5 + 0x52dce729;
            k2 *= c2;
            k2 = rotl64(k2, 33);
            k2 *= c1;
            h2 ^= k2;
            h2 = rotl64(h2, 31);
            h2 += h1;
            h2 = h2 * 5 + 0x38495ab5;
        }
        long k1 = 0, k2 = 0;
        int t = 16 * nb, rem = d.length & 15;
        for (int k = rem - 1; k >= 8; k--)
            k2 = (k2 << 8) | (d[t + k] & 0xff);
        if (rem > 8) {
            k2 *= c2;
            k2 = rotl64(k2, 33);
            k2 *= c1;
            h2 ^= k2;
        }
        for (int k = Math.min(rem, 8) - 1; k >= 0; k--)
            k1 = (k1 << 8) | (d[t + k] & 0xff);
        if (rem > 0) {
            k1 *= c1;
            k1 = rotl64(k1, 31);
            k1 *= c2;
            h1 ^= k1;
        }
        h1 ^= d.length;
        h2 ^= d.length;
        h1 += h2;
        h2 += h1;
        h1 = fmix64(h1);
        h2 = fmix64(h2);
        h1 += h2;
        h2 += h1;
        byte[] r = new byte[16];
        putLe64(r, 0, h1);
        putLe64(r, 8, h2);
        return r;
    }

    /** Murmur3_x64_128(msg, seed8): seed as 8 little-endian bytes; result as the 16 bytes the C API stores. */
    @TLAPlusOperator(identifier = "Murmur3x64128", module = "Prim", warn = false)
    public static Value murmur3(final Value msg, final Value seed8) {
        return seq(murmur(bytes(msg), le64(bytes(seed8), 0)));
    }

    // ------------------------------------------------------------------ 64-bit rotate/xor on byte sequences (rolling hash)
    /** Rol64(x8, n): rotate the 64-bit little-endian value left by n. */
    @TLAPlusOperator(identifier = "Rol64", module = "Prim", warn = false)
    public static Value rol64(final Value x, final Value n) {
        long v = le64(bytes(x), 0);
        int r = i(n) & 63;
        byte[] o = new byte[8];
        putLe64(o, 0, r == 0 ? v : rotl64(v, r));
        return seq(o);
    }

    // ------------------------------------------------------------------ AES key schedules (FIPS 197 5.2), checked against spec/Aes.tla
    static final int[] SBOX = new int[256];
    static {
        int[] inv = new int[256];
        for (int a = 1; a < 256; a++)
            for (int b = 1; b < 256; b++)
                if (gmul(a, b) == 1)
                    inv[a] = b;
        for (int a = 0; a < 256; a++) {
            int x = inv[a], y = x;
            for (int k = 0; k < 4; k++) {
                x = ((x << 1) | (x >> 7)) & 0xff;
                y ^= x;
            }
            SBOX[a] = y ^ 0x63;
        }
    }

    static int gmul(int a, int b) {
        int p = 0;
        for (int k = 0; k < 8; k++) {
            if ((b & 1) != 0)
                p ^= a;
            boolean hi = (a & 0x80) != 0;
            a = (a << 1) & 0xff;
            if (hi)
                a ^= 0x1b;
            b >>= 1;
        }
        return p;
    }

    static byte[][] roundKeys(byte[] key) {
        int nk = key.length / 4, nr = nk + 6, total = 4 * (nr + 1);
        int[][] w = new int[total][4];
        for (int i = 0; i < nk; i++)
            for (int j = 0; j < 4; j++)
                w[i][j] = key[4 * i + j] & 0xff;
        int rcon = 1;
        for (int i = nk; i < total; i++) {
            int[] t = w[i - 1].clone();
            if (i % nk == 0) {
                int t0 = t[0];
                t[0] = SBOX[t[1]] ^ rcon;
                t[1] = SBOX[t[2]];
                t[2] = SBOX[t[3]];
                t[3] = SBOX[t0];
                rcon = gmul(rcon, 2);
            } else if (nk > 6 && i % nk == 4) {
                for (int j = 0; j < 4; j++)
                    t[j] = SBOX[t[j]];
            }
            for (int j = 0; j < 4; j++)
                w[i][j] = w[i - nk][j] ^ t[j];
        }
        byte[][] rk = new byte[nr + 1][16];
        for (int r = 0; r <= nr; r++)
            for (int c = 0; c < 4; c++)
                for (int j = 0; j < 4; j++)
                    rk[r][4 * c + j] = (byte) w[4 * r + c][j];
        return rk;
    }

    static byte[] invMixColumns(byte[] s) {
        byte[] o = new byte[16];
        for (int c = 0; c < 4; c++) {
            int a0 = s[4 * c] & 0xff, a1 = s[4 * c + 1] & 0xff, a2 = s[4 * c + 2] & 0xff, a3 = s[4 * c + 3] & 0xff;
            o[4 * c] = (byte) (gmul(a0, 14) ^ gmul(a1, 11) ^ gmul(a2, 13) ^ gmul(a3, 9));
            o[4 * c + 1] = (byte) (gmul(a0, 9) ^ gmul(a1, 14) ^ gmul(a2, 11) ^ gmul(a3, 13));
            o[4 * c + 2] = (byte) (gmul(a0, 13) ^ gmul(a1, 9) ^ gmul(a2, 14) ^ gmul(a3, 11));
            o[4 * c + 3] = (byte) (gmul(a0, 11) ^ gmul(a1, 13) ^ gmul(a2, 9) ^ gmul(a3, 14));
        }
        return o;
    }

    /** FastRoundKeys(key): sequence of the Nr+1 encryption round keys (= Aes!RoundKeys). */
    @TLAPlusOperator(identifier = "FastRoundKeys", module = "Prim", warn = false)
    public static Value fastRoundKeys(final Value key) {
        byte[][] rk = roundKeys(bytes(key));
        Value[] e = new Value[rk.length];
        for (int k = 0; k < rk.length; k++)
            e[k] = seq(rk[k]);
        return new TupleValue(e);
    }

    /** FastDecRoundKeys(key): the decryption schedule slots (= Aes!DecRoundKeys). */
    @TLAPlusOperator(identifier = "FastDecRoundKeys", module = "Prim", warn = false)
    public static Value fastDecRoundKeys(final Value key) {
        byte[][] rk = roundKeys(bytes(key));
        int nr = rk.length - 1;
        Value[] e = new Value[rk.length];
        for (int j = 0; j <= nr; j++)
            e[j] = seq(j == 0 ? rk[nr] : j == nr ? rk[0] : invMixColumns(rk[nr - j]));
        return new TupleValue(e);
    }

    // ------------------------------------------------------------------ streaming multi-hash / murmur over pattern segments (long streams)
    interface Sink {
        void put(byte[] b, int off, int len);
    }

    static void feedSegs(Value segs, Sink sink) {
        TupleValue t = (TupleValue) segs.toTuple();
        byte[] period = null;
        int periodB = -1;
        for (Value sv : t.elems) {
            TupleValue sg = (TupleValue) sv.toTuple();
            int b = i(sg.elems[0]);
            long off = i(sg.elems[1]);
            long len = sg.elems.length > 3 ? (((long) i(sg.elems[2]) << 20) + i(sg.elems[3])) : i(sg.elems[2]);
            if (periodB != b) {
                period = new byte[PERIOD];
                patFill(period, 0, b, 0, PERIOD);
                periodB = b;
            }
            long pos = off & (PERIOD - 1);
            while (len > 0) {
                int n = (int) Math.min(len, PERIOD - pos);
                sink.put(period, (int) pos, n);
                len -= n;
                pos = 0;
            }
        }
    }

    /** MhDigestOfSegs(alg, segs): MultiHash!MhDigest of the concatenation of pattern segments <<b, off, lenHi, lenLo>>, streaming. */
    @TLAPlusOperator(identifier = "MhDigestOfSegs", module = "Prim", warn = false)
    public static Value mhDigestOfSegs(final Value algv, final Value segs) {
        final String alg = s(algv);
        final int dl = alg.equals("sha1") ? 20 : 32;
        final byte[][] st = new byte[16][];
        byte[] iv = alg.equals("sha1") ? unhex("67452301efcdab8998badcfe10325476c3d2e1f0")
                : unhex("6a09e667bb67ae853c6ef372a54ff53a510e527f9b05688c1f83d9ab5be0cd19");
        for (int k = 0; k < 16; k++)
            st[k] = iv.clone();
        final byte[] blk = new byte[1024];
        final int[] fill = { 0 };
        final long[] total = { 0 };
        final byte[] seg = new byte[64];
        final Runnable doBlock = () -> {
            for (int j = 0; j < 16; j++) {
                for (int tt = 0; tt < 16; tt++)
                    System.arraycopy(blk, 4 * (16 * tt + j), seg, 4 * tt, 4);
                st[j] = alg.equals("sha1") ? Hashes.sha1(st[j], seg, 0) : Hashes.sha256(st[j], seg, 0);
            }
        };
        Sink sink = (b, off, len) -> {
            total[0] += len;
            while (len > 0) {
                int n = Math.min(len, 1024 - fill[0]);
                System.arraycopy(b, off, blk, fill[0], n);
                fill[0] += n;
                off += n;
                len -= n;
                if (fill[0] == 1024) {
                    doBlock.run();
                    fill[0] = 0;
                }
            }
        };
        feedSegs(segs, sink);
        long bits = total[0] * 8;
        int padn = (int) ((1024 - ((total[0] + 1 + 8) % 1024)) % 1024);
        byte[] pad = new byte[1 + padn + 8];
        pad[0] = (byte) 0x80;
        putBe64(pad, pad.length - 8, bits);
        sink.put(pad, 0, pad.length);
        byte[] mat = new byte[dl * 16];
        int nw = dl / 4;
        for (int k = 0; k < nw; k++)
            for (int j = 0; j < 16; j++)
                for (int q = 0; q < 4; q++)
                    mat[4 * (16 * k + j) + q] = st[j][4 * k + 3 - q];
        try {
            MessageDigest jd = MessageDigest.getInstance(alg.equals("sha1") ? "SHA-1" : "SHA-256");
            return seq(jd.digest(mat));
        } catch (Exception e) {
            throw new RuntimeException(e);
        }
    }

    /** Murmur3OfSegs(segs, seed8): MurmurHash3_x64_128 of the concatenation of pattern segments, streaming. */
    @TLAPlusOperator(identifier = "Murmur3OfSegs", module = "Prim", warn = false)
    public static Value murmur3OfSegs(final Value segs, final Value seed8) {
        final long c1 = 0x87c37b91114253d5L, c2 = 0x4cf5ad432745937fL;
        final long seed = le64(bytes(seed8), 0);
        final long[] h = { seed, seed };
        final byte[] buf = new byte[16];
        final int[] fill = { 0 };
        final long[] total = { 0 };
        Sink sink = (b, off, len) -> {
            total[0] += len;
            while (len > 0) {
                int n = Math.min(len, 16 - fill[0]);
                System.arraycopy(b, off, buf, fill[0], n);
                fill[0] += n;
                off += n;
                len -= n;
                if (fill[0] == 16) {
                    long k1 = le64(buf, 0), k2 = le64(buf, 8);
                    k1 *= c1; k1 = rotl64(k1, 31); k1 *= c2; h[0] ^= k1;
                    h[0] = rotl64(h[0], 27); h[0] += h[1]; h[0] = h[0] * 5 + 0x52dce729;
                    k2 *= c2; k2 = rotl64(k2, 33); k2 *= c1; h[1] ^= k2;
                    h[1] = rotl64(h[1], 31); h[1] += h[0]; h[1] = h[1] * 5 + 0x38495ab5;
                    fill[0] = 0;
                }
            }
        };
        feedSegs(segs, sink);
        long h1 = h[0], h2 = h[1], k1 = 0, k2 = 0;
        int rem = fill[0];
        for (int k = rem - 1; k >= 8; k--)
            k2 = (k2 << 8) | (buf[k] & 0xff);
        if (rem > 8) { k2 *= c2; k2 = rotl64(k2, 33); k2 *= c1; h2 ^= k2; }
        for (int k = Math.min(rem, 8) - 1; k >= 0; k--)
            k1 = (k1 << 8) | (buf[k] & 0xff);
        if (rem > 0) { k1 *= c1; k1 = rotl64(k1, 31); k1 *= c2; h1 ^= k1; }
        h1 ^= total[0]; h2 ^= total[0];
        h1 += h2; h2 += h1; h1 = fmix64(h1); h2 = fmix64(h2); h1 += h2; h2 += h1;
        byte[] r = new byte[16];
        putLe64(r, 0, h1);
        putLe64(r, 8, h2);
        return seq(r);
    }
}
