---------------------------- MODULE SelfTestSim ----------------------------
(* SelfTest with a history variable, used with TLC's simulator to produce behaviours that are then
   replayed step by step into the real protocol (spec -> code direction of the conformance check). *)
EXTENDS SelfTest, Json

VARIABLE hist
HInit == Init /\ hist = << >>
\* which thread moved and by which action (Decide notes whether it returns to the caller)
ActOf(t) ==
  CASE pc[t] = "idle" -> "Call" [] pc[t] = "load" -> "Load" [] pc[t] = "cas" -> "CAS" [] pc[t] = "spin" -> "SpinRead"
    [] pc[t] = "final" -> "FinalLoad" [] pc[t] = "decide" -> "Decide" [] pc[t] = "aes" -> "RunAes" [] pc[t] = "sha" -> "RunSha"
    [] pc[t] = "publish" -> "Publish"
HNext == \E t \in Threads : Step(t) /\ hist' = Append(hist, << t, ActOf(t), pc[t] = "decide" /\ eax[t] \in {PASSED, FAILED} >>)
HSpec == HInit /\ [][HNext]_<< vars, hist >>
DumpAtEnd == (Done \/ Len(hist) >= 58) => PrintT("BEH " \o ToJson([h |-> hist, o |-> outcome]))
=============================================================================
