---------------------------- MODULE ApiGateModel ----------------------------
(* Closed instance of ApiGate for exhaustive exploration: a representative entry of every signature shape. *)
EXTENDS ApiGate

----------------------------------------------------------------------------
(* A small closed model (TLC explores it exhaustively): every entry of a    *)
(* table, every verdict, every vector over {v, n} + boundary scalars.  It   *)
(* exists to check the specification itself: no vector is left without an   *)
(* allowed outcome and FailClosed follows from OutcomeOkFips.               *)
ModelTable == {
  [entry |-> "isal_sha256_ctx_mgr_submit", sig |-> << "G","H","h","I","l","F" >>, alg |-> "sha256"],
  [entry |-> "isal_md5_ctx_mgr_init", sig |-> << "G" >>, alg |-> "md5"],
  [entry |-> "isal_aes_gcm_enc_128", sig |-> << "K","C","O","I","l","V","A","a","T","t" >>, alg |-> "gcm"],
  [entry |-> "isal_aes_gcm_dec_256_update", sig |-> << "K","C","O","I","l" >>, alg |-> "gcmu"],
  [entry |-> "isal_aes_cbc_enc_192", sig |-> << "I","S","X","O","l" >>, alg |-> "cbcenc"],
  [entry |-> "isal_aes_xts_dec_256_expanded_key", sig |-> << "Y","Z","W","L","I","O" >>, alg |-> "xtsdec"],
  [entry |-> "isal_aes_keyexp_128", sig |-> << "k","E","e" >>, alg |-> "kexp"],
  [entry |-> "isal_mh_sha1_finalize", sig |-> << "M","D" >>, alg |-> "mh_sha1"],
  [entry |-> "isal_rolling_hash2_init", sig |-> << "R","w" >>, alg |-> "rh"],
  [entry |-> "isal_self_tests", sig |-> << >>, alg |-> "none"] }

VARIABLES selfTest, lastCall
gvars == << selfTest, lastCall >>

ArgChoices(L, alg) ==
  IF L \in PointerLetters THEN {PVALID, PNULL}
  ELSE CASE L = "l" -> IF alg \in {"cbcenc", "cbcdec"} THEN {16, 64, 15, 17} ELSE {64}
         [] L = "L" -> {16, 64, 15, 0, BIG}
         [] L = "t" -> {8, 12, 16, 0, 4, 15, 17}
         [] L = "w" -> {1, 48, 49}
         [] L = "F" -> {0, 3, 4, 128}
         [] OTHER -> {1}
\* all argument vectors: the product of the per-position choices
RECURSIVE VecUpTo(_, _, _)
VecUpTo(sig, alg, n) ==
  IF n = 0 THEN {<< >>}
  ELSE {Append(v, c) : v \in VecUpTo(sig, alg, n - 1), c \in ArgChoices(Letter(sig, n), alg)}
Vectors(sig, alg) == VecUpTo(sig, alg, Len(sig))

\* lastCall records only whether the last call did cryptographic work (the action label carries the rest)
GInit == selfTest = "notrun" /\ lastCall = FALSE
GCall(t, args, rc, work, stpass) ==
  LET ran == selfTest = "notrun" /\ Class(t.entry) = "approved" /\ BadCodes(t.sig, t.alg, args) = {} /\ ~SameKeys(t.sig, args)
      after == IF ran THEN (IF stpass THEN "passed" ELSE "failed") ELSE selfTest
  IN /\ OutcomeOkFips(t.entry, t.sig, t.alg, args, selfTest, rc, work, after, ran, stpass)
     /\ selfTest' = after
     /\ lastCall' = work
GNext == \E t \in ModelTable : \E args \in Vectors(t.sig, t.alg) :
           \E rc \in {0} \cup {ERR.SELF_TEST, ERR.FIPS_INVALID_ALGO, ERR.XTS_SAME_KEYS, ERR.INVALID_FLAGS} \cup BadCodes(t.sig, t.alg, args) :
             \E work \in BOOLEAN : \E stpass \in BOOLEAN : GCall(t, args, rc, work, stpass)
GSpec == GInit /\ [][GNext]_gvars

GFailClosed == lastCall => selfTest = "passed"
GNeverWorkAfterFailure == [][selfTest = "failed" => selfTest' = "failed" /\ ~lastCall']_gvars
========================================================================
=============================================================================
