/* main.c - command-file interpreter: drv <commands> <trace.ndjson> */
#define _GNU_SOURCE
#include "core.h"
#include <string.h>
#include <stdlib.h>

int hash_cmd(const cmd *c) __attribute__((weak));
int aes_cmd(const cmd *c) __attribute__((weak));
int mh_cmd(const cmd *c) __attribute__((weak));
int rh_cmd(const cmd *c) __attribute__((weak));
int gate_cmd(const cmd *c) __attribute__((weak));
int disp_cmd(const cmd *c) __attribute__((weak));
int self_cmd(const cmd *c) __attribute__((weak));

int
main(int argc, char **argv)
{
        if (argc < 3)
                die("usage: drv <commands> <trace>");
        FILE *f = strcmp(argv[1], "-") ? fopen(argv[1], "r") : stdin;
        if (!f)
                die("cannot open %s", argv[1]);
        ev_open(argv[2]);
        vc_thread_init();
        cmd c;
        while (cmd_read(f, &c)) {
                if (!strcmp(c.t[0], "hidden")) {
                        vc_hidden_seed = (int) cmd_i(&c, 1);
                        continue;
                }
                if (!strcmp(c.t[0], "dump")) {
                        vc_dump_secrets = (int) cmd_i(&c, 1);
                        continue;
                }
                if (!strcmp(c.t[0], "mark")) { /* behaviour separator, copied into the trace */
                        ev_begin("Mark");
                        ev_str("id", c.n > 1 ? c.t[1] : "");
                        ev_end();
                        continue;
                }
                if ((hash_cmd && hash_cmd(&c)) || (aes_cmd && aes_cmd(&c)) || (mh_cmd && mh_cmd(&c)) ||
                    (rh_cmd && rh_cmd(&c)) || (gate_cmd && gate_cmd(&c)) || (disp_cmd && disp_cmd(&c)) ||
                    (self_cmd && self_cmd(&c)))
                        continue;
                die("unknown command %s", c.t[0]);
        }
        ev_close();
        return 0;
}
