/* main.c - command-file interpreter: drv <commands> <trace.ndjson> */
#define _GNU_SOURCE
#include "core.h"
#include <string.h>
#include <signal.h>
#include <sys/time.h>
#include <stdlib.h>

int hash_cmd(const cmd *c) __attribute__((weak));
int aes_cmd(const cmd *c) __attribute__((weak));
int mh_cmd(const cmd *c) __attribute__((weak));
int rh_cmd(const cmd *c) __attribute__((weak));
int gate_cmd(const cmd *c) __attribute__((weak));
int disp_cmd(const cmd *c) __attribute__((weak));
int self_cmd(const cmd *c) __attribute__((weak));
int job_cmd(const cmd *c) __attribute__((weak));

#include <pthread.h>
void disp_rearm_all(void) __attribute__((weak));
static pthread_barrier_t bar;
static int
dispatch(const cmd *c)
{
        return (hash_cmd && hash_cmd(c)) || (aes_cmd && aes_cmd(c)) || (mh_cmd && mh_cmd(c)) || (rh_cmd && rh_cmd(c)) ||
               (gate_cmd && gate_cmd(c)) || (disp_cmd && disp_cmd(c)) || (self_cmd && self_cmd(c)) || (job_cmd && job_cmd(c));
}
struct parg {
        char cmds[512], trace[512];
};
static void *
par_worker(void *a)
{
        struct parg *p = a;
        FILE *f = fopen(p->cmds, "r");
        ev_fp_thread = fopen(p->trace, "w");
        if (!f || !ev_fp_thread)
                die("par: cannot open %s / %s", p->cmds, p->trace);
        vc_thread_init();
        pthread_barrier_wait(&bar); /* simultaneous first calls */
        cmd c;
        while (cmd_read(f, &c)) {
                if (!strcmp(c.t[0], "mark")) {
                        ev_begin("Mark");
                        ev_str("id", c.n > 1 ? c.t[1] : "");
                        ev_end();
                        continue;
                }
                if (!strcmp(c.t[0], "hidden") || !strcmp(c.t[0], "dump"))
                        continue;
                if (!dispatch(&c))
                        die("unknown command %s", c.t[0]);
        }
        fclose(ev_fp_thread);
        fclose(f);
        return NULL;
}

static volatile unsigned long storm_hits;
static void
storm_handler(int sig)
{
        (void) sig;
        storm_hits++;
}

int
main(int argc, char **argv)
{
        if (argc < 3)
                die("usage: drv <commands> <trace>");
        FILE *f = strcmp(argv[1], "-") ? fopen(argv[1], "r") : stdin;
        if (!f)
                die("cannot open %s", argv[1]);
        ev_open(argv[2]);
        vc_thread_init();
        cmd c;
        while (cmd_read(f, &c)) {
                if (!strcmp(c.t[0], "hidden")) {
                        vc_hidden_seed = (int) cmd_i(&c, 1);
                        continue;
                }
                if (!strcmp(c.t[0], "storm")) {
                        /* asynchronous signals at a high rate for the rest of the run (C20): the kernel builds each signal
                         * frame on the interrupted stack below the 128-byte red zone, i.e. anything a callee keeps further
                         * below its stack pointer is overwritten at unpredictable instants.  The handler does nothing. */
                        struct sigaction sa;
                        memset(&sa, 0, sizeof sa);
                        sa.sa_handler = storm_handler;
                        sa.sa_flags = SA_RESTART;
                        sigaction(SIGALRM, &sa, NULL);
                        struct itimerval it;
                        it.it_interval.tv_sec = 0;
                        it.it_interval.tv_usec = (suseconds_t) cmd_i(&c, 1);
                        it.it_value = it.it_interval;
                        setitimer(ITIMER_REAL, &it, NULL);
                        continue;
                }
                if (!strcmp(c.t[0], "stepmode")) {
                        /* every library call from now on runs under the trap flag with an empty SIGTRAP handler on the interrupted
                         * stack: deterministic version of the signal storm (anything kept below rsp-128 is overwritten at once) */
                        struct sigaction sa;
                        memset(&sa, 0, sizeof sa);
                        sa.sa_handler = storm_handler;
                        sa.sa_flags = SA_RESTART;
                        sigaction(SIGTRAP, &sa, NULL);
                        vc_step = (int) cmd_i(&c, 1);
                        continue;
                }
                if (!strcmp(c.t[0], "dump")) {
                        vc_dump_secrets = (int) cmd_i(&c, 1);
                        continue;
                }
                if (!strcmp(c.t[0], "mark")) { /* behaviour separator, copied into the trace */
                        ev_begin("Mark");
                        ev_str("id", c.n > 1 ? c.t[1] : "");
                        ev_end();
                        continue;
                }
                if (!strcmp(c.t[0], "par")) { /* par <cmds1> <trace1> <cmds2> <trace2> ... : one thread per pair */
                        int n = (c.n - 1) / 2;
                        pthread_t th[64];
                        static struct parg pa[64];
                        if (n > 64)
                                die("par: too many threads");
                        if (disp_rearm_all)
                                disp_rearm_all(); /* every binding back to its resolver: first calls race */
                        vc_parallel = 1;
                        pthread_barrier_init(&bar, NULL, (unsigned) n);
                        for (int i = 0; i < n; i++) {
                                snprintf(pa[i].cmds, sizeof pa[i].cmds, "%s", c.t[1 + 2 * i]);
                                snprintf(pa[i].trace, sizeof pa[i].trace, "%s", c.t[2 + 2 * i]);
                                pthread_create(&th[i], NULL, par_worker, &pa[i]);
                        }
                        for (int i = 0; i < n; i++)
                                pthread_join(th[i], NULL);
                        vc_parallel = 0;
                        continue;
                }
                if (dispatch(&c))
                        continue;
                die("unknown command %s", c.t[0]);
        }
        ev_close();
        return 0;
}
