---------------------------- MODULE PrimSelfTest ----------------------------
(***************************************************************************)
(* Keeps the trusted base honest: every Java override of Prim is checked   *)
(* against published vectors, against the pure TLA+ definitions (module    *)
(* Aes, Prim!GfLoop, HashStd!Digest) and against the JDK.  Run by          *)
(* setup_cmd; a failing ASSUME makes TLC exit non-zero.                    *)
(***************************************************************************)
EXTENDS Naturals, Sequences, TLC, MultiHash

Seq16(h) == FromHex(h)
K128 == FromHex("000102030405060708090a0b0c0d0e0f")
K192 == FromHex("000102030405060708090a0b0c0d0e0f1011121314151617")
K256 == FromHex("000102030405060708090a0b0c0d0e0f101112131415161718191a1b1c1d1e1f")
PT == FromHex("00112233445566778899aabbccddeeff")

\* FIPS 197 appendix C, through the Java body and through the TLA+ definition
ASSUME ToHex(AesEncBlock(K128, PT)) = "69c4e0d86a7b0430d8cdb78070b4c55a"
ASSUME ToHex(AesEncBlock(K192, PT)) = "dda97ca4864cdfe06eaf70a0ec0d7191"
ASSUME ToHex(AesEncBlock(K256, PT)) = "8ea2b7ca516745bfeafc49904b496089"
ASSUME ToHex(Cipher(K128, PT)) = "69c4e0d86a7b0430d8cdb78070b4c55a"
ASSUME ToHex(Cipher(K192, PT)) = "dda97ca4864cdfe06eaf70a0ec0d7191"
ASSUME ToHex(Cipher(K256, PT)) = "8ea2b7ca516745bfeafc49904b496089"
ASSUME \A k \in {K128, K192, K256} : InvCipher(k, Cipher(k, PT)) = PT /\ AesDecBlock(k, AesEncBlock(k, PT)) = PT
ASSUME \A b \in 2..9 : LET k == PatBytes(b, 3, 16 + 8 * (b % 3))  x == PatBytes(b + 50, 0, 16)
                       IN AesEncBlock(k, x) = Cipher(k, x) /\ AesDecBlock(k, x) = InvCipher(k, x)
\* FIPS 197 A.1: last round key of 2b7e1516...
ASSUME ToHex(RoundKeys(FromHex("2b7e151628aed2a6abf7158809cf4f3c"))[11]) = "d014f9a8c9ee2589e13f0cc8b6630ca6"
\* FIPS 197 A.3: last words of the 256-bit schedule
ASSUME ToHex(RoundKeys(FromHex("603deb1015ca71be2b73aef0857d77811f352c073b6108d72d9810a30914dff4"))[15]) = "fe4890d1e6188d0b046df344706c631e"
\* decryption schedule: first slot = last round key, last slot = first 16 key bytes
ASSUME LET k == K192 IN /\ DecRoundKeys(k)[1] = RoundKeys(k)[13]
                        /\ DecRoundKeys(k)[13] = SubSeq(k, 1, 16)
                        /\ DecRoundKeys(k)[2] = InvMixColumns(RoundKeys(k)[12])

\* fast key schedules = the TLA+ definitions
ASSUME \A k \in {K128, K192, K256, PatBytes(5, 0, 16), PatBytes(6, 1, 24), PatBytes(7, 2, 32)} :
          FastRoundKeys(k) = RoundKeys(k) /\ FastDecRoundKeys(k) = DecRoundKeys(k)

\* GF(2^128): Java body against the TLA+ definition, plus algebra
ZERO16 == [i \in 1..16 |-> 0]
ASSUME \A b \in 2..6 : LET x == PatBytes(b, 0, 16)  y == PatBytes(b, 16, 16)
                       IN /\ GfMul128(x, y) = GfLoop(x, ZERO16, y, 0)
                          /\ GfMul128(x, y) = GfMul128(y, x)
                          /\ GfMul128(x, ZERO16) = ZERO16
\* the multiplicative identity is the bit string 1000...0
ASSUME LET one == [i \in 1..16 |-> IF i = 1 THEN 128 ELSE 0]  x == PatBytes(9, 0, 16) IN GfMul128(x, one) = x

\* hash functions: published vectors, JDK agreement, streaming agreement
ABC == << 97, 98, 99 >>
ASSUME ToHex(Digest("sha1", ABC)) = "a9993e364706816aba3e25717850c26c9cd0d89d"
ASSUME ToHex(Digest("sha256", ABC)) = "ba7816bf8f01cfea414140de5dae2223b00361a396177a9cb410ff61f20015ad"
ASSUME ToHex(Digest("sha512", ABC)) = "ddaf35a193617abacc417349ae20413112e6fa4e89a97ea20a9eeee64b55d39a2192992a274fc1a836ba3c23a3feebbd454d4423643ce80e2a9ac94fa54ca49f"
ASSUME ToHex(Digest("md5", ABC)) = "900150983cd24fb0d6963f7d28e17f72"
ASSUME ToHex(Digest("sm3", ABC)) = "66c7f0f462eeedd9d1f2d46bdc10e4e24167c4875cf2f7a2297da02b8f4ba8e0"
\* GB/T 32905 example 2: 64 bytes "abcd" x 16
ASSUME ToHex(Digest("sm3", [i \in 1..64 |-> 97 + ((i - 1) % 4)])) = "debe9ff92275b8a138604889c18e5a4d6fdb70e5387e5765293dcba39c0c5732"
ASSUME ToHex(Digest("sha256", << >>)) = "e3b0c44298fc1c149afbf4c8996fb92427ae41e4649b934ca495991b7852b855"
Lens == {0, 1, 54, 55, 56, 57, 63, 64, 65, 110, 111, 112, 113, 119, 120, 127, 128, 129, 200, 255, 256, 257}
ASSUME \A a \in {"sha1", "sha256", "sha512", "md5"} : \A n \in Lens :
          LET m == PatBytes(7 + n, n, n) IN Digest(a, m) = JdkDigest(a, m)
ASSUME \A a \in Algs : \A n \in Lens :
          ToHex(Digest(a, PatBytes(11, 5, n))) = DigestOfSegs(a, << << 11, 5, 0, n >> >>)
ASSUME \A a \in Algs : ToHex(Digest(a, PatBytes(12, 0, 70) \o PatBytes(0, 9, 5) \o PatBytes(13, 1000, 130)))
                        = DigestOfSegs(a, << << 12, 0, 0, 70 >>, << 0, 9, 0, 5 >>, << 13, 1000, 0, 130 >> >>)
\* one or two padding blocks
ASSUME PadBlocks("sha256", 55) = 1 /\ PadBlocks("sha256", 56) = 2 /\ PadBlocks("sha512", 111) = 1 /\ PadBlocks("sha512", 112) = 2
\* the streaming override wraps the 2^20 period exactly like PatBytes
ASSUME DigestOfSegs("sha256", << << 5, 1048570, 0, 20 >> >>) = ToHex(Digest("sha256", PatBytes(5, 1048570, 6) \o PatBytes(5, 0, 14)))

\* MurmurHash3_x64_128 reference values (h1, h2 stored little-endian)
RevBytes(s) == [i \in 1..Len(s) |-> s[Len(s) + 1 - i]]
MurHex(msg, seed8) == LET r == Murmur3x64128(msg, seed8)
                      IN ToHex(RevBytes(SubSeq(r, 1, 8))) \o ToHex(RevBytes(SubSeq(r, 9, 16)))
Z8 == [i \in 1..8 |-> 0]
Fox == << 84,104,101,32,113,117,105,99,107,32,98,114,111,119,110,32,102,111,120,32,106,117,109,112,115,32,111,118,101,114,32,116,104,101,32,108,97,122,121,32,100,111,103 >>
ASSUME ToHex(Murmur3x64128(<< >>, Z8)) = "00000000000000000000000000000000"
ASSUME ToHex(RevBytes(SubSeq(Murmur3x64128(Fox, Z8), 1, 8))) = "e34bbc7bbc071b6c"
ASSUME ToHex(RevBytes(SubSeq(Murmur3x64128(Fox, Z8), 9, 16))) = "7a433ca9c49a9347"
ASSUME ToHex(RevBytes(SubSeq(Murmur3x64128(<< 104, 101, 108, 108, 111 >>, Z8), 1, 8))) = "cbd8a7b341bd9b02"

\* streaming multi-hash / murmur = the definitions (MultiHash!MhDigest, Murmur3x64128) on segment lists
SegsA == << << 21, 5, 0, 1000 >>, << 22, 7, 0, 24 >>, << 0, 0, 0, 0 >>, << 23, 1048570, 0, 2100 >> >>
BytesA == PatBytes(21, 5, 1000) \o PatBytes(22, 7, 24) \o PatBytes(23, 1048570, 6) \o PatBytes(23, 0, 2094)
ASSUME \A a \in {"sha1", "sha256"} : MhDigestOfSegs(a, SegsA) = MhDigest(a, BytesA)
ASSUME \A n \in {0, 1, 1015, 1016, 1024, 2047} :
          \A a \in {"sha1", "sha256"} : MhDigestOfSegs(a, << << 30, 3, 0, n >> >>) = MhDigest(a, PatBytes(30, 3, n))
ASSUME Murmur3OfSegs(SegsA, << 1, 2, 3, 4, 5, 6, 7, 8 >>) = Murmur3x64128(BytesA, << 1, 2, 3, 4, 5, 6, 7, 8 >>)
ASSUME \A n \in {0, 1, 15, 16, 17, 33} : Murmur3OfSegs(<< << 31, 9, 0, n >> >>, Z8) = Murmur3x64128(PatBytes(31, 9, n), Z8)

ASSUME ToHex(Rol64(FromHex("0100000000000080"), 1)) = "0300000000000000"
ASSUME HexHas("00aabbcc", "aabb") /\ ~HexHas("0aabbc", "aabb") /\ XorBytes(<< 1, 2 >>, << 3, 255 >>) = << 2, 253 >>

VARIABLE x
Init == x = 0
Next == UNCHANGED x
Spec == Init /\ [][Next]_x
=============================================================================
