---------------------------- MODULE HashImplSim ----------------------------
(* HashImpl with a history variable: TLC's simulator draws behaviours (public calls with the context the model says is
   handed back); the check maps the toy lengths to the real block size (n = 4q + r  ->  q*B + {0, 1, B-P-1, B-P}[r]) and
   replays them through the real managers of a family with the same lane count (spec -> code). *)
EXTENDS HashImpl, Json

SimCtx3 == 0..2
SimCtx5 == 0..4
SimCtx9 == 0..8
SimNone == -1
DumpLen == 24
DumpLen56 == 56
VARIABLE hist
HInit == IInit /\ hist = << >>
HNext == \/ \E c \in Ctx, f \in 0..4, n \in SegLens :
              SubmitAct(c, f, n) /\ hist' = Append(hist, << "s", c, f, n, lastRet' >>)
         \/ FlushAct /\ hist' = Append(hist, << "f", 0, 0, 0, lastRet' >>)
HSpec == HInit /\ [][HNext]_<< ivars, hist >>
DumpAtEnd == Len(hist) >= DumpLen => PrintT("BEH " \o ToJson([h |-> hist]))
=============================================================================
