---------------------------- MODULE TraceSelfTest ----------------------------
(***************************************************************************)
(* Trace validation of the FIPS self-test protocol (C17).                  *)
(* The driver (harness/drv_self.c) runs N threads under a schedule, one    *)
(* thread at a time, stopping each before every access to the status word  *)
(* (the status function runs under the CPU trap flag), and records         *)
(*   SReset n calls aes sha entry | Call t | Acc t k eax zf st |           *)
(*   RunAes t | RunSha t | TestsDone t sha | Ret t rv | Stuck | SEnd       *)
(* Two layers are validated:                                               *)
(*  - VERDICT (property level, independent of the code's shape): the tests *)
(*    start at most once, nobody returns success before they finished and  *)
(*    passed, every return agrees with the verdict, every call returns.    *)
(*  - PROTOCOL (drift level): every event is the SelfTest action of that   *)
(*    thread, with the values the model predicts.                          *)
(***************************************************************************)
EXTENDS SelfTest, TraceLib, Integers

VARIABLES l, tests, vfin, vpass, nret, lostp, viol, nthreads, ncall
tvars == << vars, l, tests, vfin, vpass, nret, lostp, viol, nthreads, ncall >>

TraceThreads == 0..7
IsEv(name) == l <= NEv /\ Tr[l].e = name
Adv(v) == /\ l' = l + 1
          /\ viol' = Cap(viol \o v)
          /\ PubResult(viol', l')
ErrSelfTest == 2016

TInit == /\ status = NOT_DONE /\ pc = [t \in Threads |-> "idle"] /\ eax = [t \in Threads |-> 0]
         /\ left = [t \in Threads |-> 0] /\ rets = [t \in Threads |-> << >>] /\ outcome = "pass"
         /\ runs = 0 /\ finished = FALSE
         /\ l = 1 /\ tests = 0 /\ vfin = FALSE /\ vpass = TRUE /\ nret = 0 /\ lostp = TRUE /\ viol = << >>
         /\ nthreads = 0 /\ ncall = 0
         /\ PubResult(<< >>, 1)

TReset ==
  /\ IsEv("SReset")
  /\ LET e == Tr[l] IN
     /\ status' = NOT_DONE /\ pc' = [t \in Threads |-> "idle"] /\ eax' = [t \in Threads |-> 0]
     /\ left' = [t \in Threads |-> IF t < e.n THEN e.calls ELSE 0] /\ rets' = [t \in Threads |-> << >>]
     /\ outcome' = IF (e.aes \in {0, -9}) /\ (e.sha \in {0, -9}) THEN "pass" ELSE "fail"
     /\ runs' = 0 /\ finished' = FALSE
     /\ tests' = 0 /\ vfin' = FALSE /\ vpass' = ((e.aes \in {0, -9}) /\ (e.sha \in {0, -9})) /\ nret' = 0
     /\ lostp' = ("free" \in DOMAIN e)       \* free-running behaviours (selfstall) are judged by the verdict layer only
     /\ nthreads' = e.n /\ ncall' = e.calls
     /\ Adv(<< >>)

\* protocol layer: apply model action A(t) if the event matches what the model predicts, else lose the protocol layer
Proto(cond, action, what, info) ==
  IF lostp THEN UNCHANGED vars /\ lostp' = TRUE /\ Adv(<< >>)
  ELSE IF cond
       THEN action /\ lostp' = FALSE /\ Adv(<< >>)
       ELSE UNCHANGED vars /\ lostp' = TRUE /\ Adv(Chk(FALSE, "DRIFT", what, l, info))

KeepVerdict == UNCHANGED << tests, vfin, vpass, nret, nthreads, ncall >>

TCall ==
  /\ IsEv("Call") /\ KeepVerdict
  /\ LET t == Tr[l].t IN Proto(pc[t] = "idle" /\ left[t] > 0, Call(t), "call", << t, pc[t] >>)

TAcc ==
  /\ IsEv("Acc") /\ KeepVerdict
  /\ LET e == Tr[l]  t == e.t IN
     CASE e.k = "L" /\ pc[t] = "load" -> Proto(e.eax = status /\ e.st = status, Load(t), "load", << e, status >>)
       [] e.k = "L" /\ pc[t] = "final" -> Proto(e.eax = status /\ e.st = status, FinalLoad(t), "final-load", << e, status >>)
       [] e.k = "X" -> Proto(pc[t] = "cas" /\ e.zf = (IF status = NOT_DONE THEN 1 ELSE 0)
                             /\ e.st = (IF status = NOT_DONE THEN RUNNING ELSE status), CAS(t), "cas", << e, status, pc[t] >>)
       [] e.k = "C" -> Proto(pc[t] = "spin" /\ e.zf = (IF status = RUNNING THEN 1 ELSE 0), SpinRead(t), "spin-read", << e, status, pc[t] >>)
       [] e.k = "S" -> Proto(pc[t] = "publish" /\ e.st = (IF outcome = "pass" THEN PASSED ELSE FAILED), Publish(t), "publish",
                             << e, status, pc[t], outcome >>)
       [] OTHER -> Proto(FALSE, Call(t), "unexpected-access", << e, pc[t] >>)

\* verdict layer events
TRunAes ==
  /\ IsEv("RunAes")
  /\ LET t == Tr[l].t IN
     /\ tests' = tests + 1
     /\ UNCHANGED << vfin, vpass, nret, nthreads, ncall >>
     /\ IF lostp THEN UNCHANGED vars /\ lostp' = TRUE
        ELSE IF pc[t] = "decide" /\ eax[t] \notin {PASSED, FAILED}
             THEN /\ runs' = runs + 1 /\ pc' = [pc EXCEPT ![t] = "sha"]     \* Decide(t) followed by RunAes(t)
                  /\ UNCHANGED << status, eax, left, rets, outcome, finished >>
                  /\ lostp' = FALSE
             ELSE UNCHANGED vars /\ lostp' = TRUE
     /\ Adv(Chk(tests = 0, "C17", "self-tests-started-more-than-once", l, << t, tests + 1 >>))

TRunSha ==
  /\ IsEv("RunSha") /\ KeepVerdict
  /\ LET t == Tr[l].t IN Proto(pc[t] = "sha", RunSha(t), "run-sha", << t, pc[t] >>)

TTestsDone ==
  /\ IsEv("TestsDone")
  /\ vfin' = TRUE /\ UNCHANGED << vars, tests, vpass, nret, lostp, nthreads, ncall >>
  /\ Adv(<< >>)

TRet ==
  /\ IsEv("Ret")
  /\ LET e == Tr[l]  t == e.t IN
     /\ nret' = nret + 1
     /\ UNCHANGED << tests, vfin, vpass, nthreads, ncall >>
     /\ IF lostp THEN UNCHANGED vars /\ lostp' = TRUE
        ELSE IF pc[t] = "decide" /\ eax[t] \in {PASSED, FAILED}
             THEN Decide(t) /\ lostp' = FALSE
             ELSE IF pc[t] = "idle" /\ Len(rets[t]) > 0 THEN UNCHANGED vars /\ lostp' = FALSE
             ELSE UNCHANGED vars /\ lostp' = TRUE
     /\ Adv(   Chk(e.rv = 0 => (vfin /\ vpass), "C17", "success-before-self-tests-finished-and-passed", l, << t, e.rv, vfin, vpass >>)
            \o Chk(e.rv \in {0, ErrSelfTest}, "C17", "unexpected-return-value", l, << t, e.rv >>)
            \o Chk(vfin => (e.rv = (IF vpass THEN 0 ELSE ErrSelfTest)), "C17", "threads-observe-different-verdicts", l, << t, e.rv, vpass >>))

TStuck ==
  /\ IsEv("Stuck") /\ UNCHANGED << vars, tests, vfin, vpass, nret, lostp, nthreads, ncall >>
  /\ Adv(Chk(FALSE, "C17", "a-thread-waits-forever", l, << Tr[l].st, nret >>))

TEnd ==
  /\ IsEv("SEnd") /\ UNCHANGED << vars, tests, vfin, vpass, nret, lostp, nthreads, ncall >>
  /\ Adv(   Chk(nret = nthreads * ncall, "C17", "a-call-did-not-return", l, << nret, nthreads, ncall >>)
         \o Chk(tests <= 1, "C17", "self-tests-started-more-than-once", l, << tests >>))

TSkip == l <= NEv /\ Tr[l].e = "Mark" /\ UNCHANGED << vars, tests, vfin, vpass, nret, lostp, nthreads, ncall >> /\ Adv(<< >>)

TNext == TReset \/ TCall \/ TAcc \/ TRunAes \/ TRunSha \/ TTestsDone \/ TRet \/ TStuck \/ TEnd \/ TSkip
TSpec == TInit /\ [][TNext]_tvars
TraceAccepted == WriteResult /\ TLCGet(2) = NEv + 1
=============================================================================
