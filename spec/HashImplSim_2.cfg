SPECIFICATION HSpec
CONSTANTS
  Ctx <- SimCtx3
  NLanes = 2
  B = 4
  P = 1
  SegLens = {0, 1, 2, 3, 4, 5, 9}
  MaxTotal = 40
  NoCtx <- SimNone
  SbThreshold = 1
  TrackStream = FALSE
INVARIANT DumpAtEnd
CHECK_DEADLOCK FALSE
