SPECIFICATION Spec
