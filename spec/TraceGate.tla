------------------------------ MODULE TraceGate ------------------------------
(***************************************************************************)
(* Trace validation of the isal_ wrapper layer against ApiGate.            *)
(* Event Gate: entry, sig (letters), alg, args, rc, inner (internal         *)
(* dispatched functions entered, link seams), touched (argument objects    *)
(* whose bytes changed), stb / sta (self-test status word before/after),   *)
(* stran (self-test runs during the call), obs.                            *)
(* MODE (environment) selects the instance: "fips" (C13) or "plain" (C16).  *)
(* The trace spec also carries the injected self-test outcome (StInj       *)
(* events) so that it knows what a run of the tests reports.               *)
(***************************************************************************)
EXTENDS ApiGate, Machine, TraceLib

VARIABLES l, inj, viol
tvars == << l, inj, viol >>
Mode == IOEnv.MODE

IsEv(name) == l <= NEv /\ Tr[l].e = name
Step(v) == /\ l' = l + 1
           /\ viol' = Cap(viol \o v)
           /\ PubResult(viol', l')
TInit == l = 1 /\ inj = << -9, -9, 0 >> /\ viol = << >> /\ PubResult(<< >>, 1)

TInj == /\ IsEv("StInj")
        /\ inj' = << Tr[l].aes, Tr[l].sha, IF "fault" \in DOMAIN Tr[l] THEN Tr[l].fault ELSE 0 >>
        /\ Step(<< >>)

\* what a run of the self-tests reports under the current injection (-9 = the real tests, which pass)
\* inj[3] # 0: the real tests run on top of a primitive that returns a corrupted result: they must fail
StPass == (inj[1] \in {-9, 0}) /\ (inj[2] \in {-9, 0}) /\ inj[3] = 0

TGate ==
  /\ IsEv("Gate") /\ UNCHANGED inj
  /\ LET e == Tr[l]
         work == e.inner > 0 \/ e.touched # << >>
         before == VerdictOf(e.stb)
         after == VerdictOf(e.sta)
         ran == e.stran > 0
         info == << e.entry, e.args, e.rc, e.inner, e.touched, e.stb, e.sta, e.stran >>
     IN Step(
        IF ~Known(e.entry) THEN Chk(FALSE, "SPEC", "entry-not-classified", l, info)
        ELSE IF Mode = "fips"
        THEN    Chk(e.obs.fault # 0 \/ OutcomeOkFips(e.entry, e.sig, e.alg, e.args, before, e.rc, work, after, ran, StPass),
                    "C13",
                    IF Class(e.entry) = "nonapproved" THEN "nonapproved-algorithm-not-refused"
                    ELSE IF SameKeys(e.sig, e.args) THEN "xts-equal-keys-accepted"
                    ELSE IF before = "failed" /\ (work \/ e.rc = 0) THEN "work-after-failed-self-test"
                    ELSE IF before = "notrun" /\ ~ran THEN "work-before-self-tests"
                    ELSE IF after = "corrupt" THEN "failed-verdict-not-latched"
                    ELSE "fips-gate-outcome", l, info)
             \o Chk(FailClosed(work, after), "C13", "work-without-passed-verdict", l, info)
             \o Chk(e.stran <= 1 /\ (before \in {"passed", "failed"} => ~ran), "C17", "self-tests-ran-again", l, info)
             \o Chk(NoFault(e.obs), "FAULT", "call-faulted", l, << e.entry, e.args, e.obs.fault, e.obs.fw >>)
        ELSE    Chk(e.obs.fault # 0 \/ OutcomeOkPlain(e.entry, e.sig, e.alg, e.args, e.rc, work),
                    "C16",
                    IF BadCodes(e.sig, e.alg, e.args) = {} THEN "valid-arguments-refused"
                    ELSE IF e.rc = 0 THEN "invalid-arguments-accepted"
                    ELSE IF work THEN "side-effect-before-error-return"
                    ELSE "wrong-error-code", l, info \o << BadCodes(e.sig, e.alg, e.args) >>)
             \o Chk(NoFault(e.obs), "C16", "argument-dereferenced-before-check", l,
                    << e.entry, e.args, e.obs.fault, e.obs.fw >>)
        \o Chk(ABIOk(e.obs), "C19", "abi", l, << e.e, e.entry, e.obs >>)
        \o Chk(e.obs.fault # 0 \/ (e.obs.can = 1), "C08", "mem", l, << e.e, e.entry, e.obs >>))

TSkip == l <= NEv /\ Tr[l].e \in {"Mark", "GateEntry"} /\ UNCHANGED inj /\ Step(<< >>)
TNext == TGate \/ TInj \/ TSkip
TSpec == TInit /\ [][TNext]_tvars
TraceAccepted == WriteResult /\ TLCGet(2) = NEv + 1
=============================================================================
