/* drv_hash.c - executes hash-manager behaviours (C01 C06 C11 C15 + machine contracts) and
 * records one event per public call return. The driver only records; TLC decides. */
#define _GNU_SOURCE
#include "core.h"
#include <string.h>
#include <stdlib.h>
#include <sys/mman.h>
#include <sha1_mb.h>
#include <sha256_mb.h>
#include <sha512_mb.h>
#include <md5_mb.h>
#include <sm3_mb.h>
#include <unistd.h>

struct halg {
        const char *name;
        size_t mgr_size, ctx_size;
        unsigned mgr_align, ctx_align;
        size_t o_status, o_error, o_total, o_pblen, o_ud, o_dig;
        int wbytes, nwords, block, words_native; /* words_native: digest words are native ints -> print BE */
};
#define DEF(name, CTX, MGR, W, NW, BLK, NATIVE)                                                                \
        { #name, sizeof(MGR), sizeof(CTX), (unsigned) _Alignof(MGR), (unsigned) _Alignof(CTX), offsetof(CTX, status), offsetof(CTX, error),                         \
          offsetof(CTX, total_length), offsetof(CTX, partial_block_buffer_length), offsetof(CTX, user_data),    \
          offsetof(CTX, job.result_digest), W, NW, BLK, NATIVE }
static const struct halg algs[] = {
        DEF(sha1, ISAL_SHA1_HASH_CTX, ISAL_SHA1_HASH_CTX_MGR, 4, 5, 64, 1),
        DEF(sha256, ISAL_SHA256_HASH_CTX, ISAL_SHA256_HASH_CTX_MGR, 4, 8, 64, 1),
        DEF(sha512, ISAL_SHA512_HASH_CTX, ISAL_SHA512_HASH_CTX_MGR, 8, 8, 128, 1),
        DEF(md5, ISAL_MD5_HASH_CTX, ISAL_MD5_HASH_CTX_MGR, 4, 4, 64, 0),
        DEF(sm3, ISAL_SM3_HASH_CTX, ISAL_SM3_HASH_CTX_MGR, 4, 8, 64, 0),
};

#define MAXCTX 72
static __thread const struct halg *A;
static __thread int style; /* 0 family/internal symbols (legacy signature), 1 isal_ signature */
static __thread void *f_init, *f_submit, *f_flush;
static __thread gbuf mgr_g, ctx_g[MAXCTX], seg_g[MAXCTX], outp_g;
static __thread int seg_live[MAXCTX], seg_huge[MAXCTX];
static __thread int nctx;
static __thread uint8_t *img_before[MAXCTX];
static __thread uint8_t *mgr_before;
static __thread uint64_t ud_val[MAXCTX];
static __thread int started[MAXCTX]; /* a submit on this context has been accepted at least once: its digest is API-defined */

static int
ctx_index(void *p)
{
        if (!p)
                return -1;
        for (int i = 0; i < nctx; i++)
                if (ctx_g[i].p == (uint8_t *) p)
                        return i;
        return -2; /* a pointer that is not one of our contexts */
}
#define CTXF(i, off, type) (*(type *) (ctx_g[i].p + (off)))

static void
dig_hex(int c, char *out)
{
        static const char hx[] = "0123456789abcdef";
        const uint8_t *d = ctx_g[c].p + A->o_dig;
        int n = 0;
        for (int w = 0; w < A->nwords; w++)
                for (int b = 0; b < A->wbytes; b++) {
                        uint8_t v = A->words_native ? d[w * A->wbytes + (A->wbytes - 1 - b)] : d[w * A->wbytes + b];
                        out[n++] = hx[v >> 4];
                        out[n++] = hx[v & 15];
                }
        out[n] = 0;
}

static void
snapshot_before(void)
{
        for (int i = 0; i < nctx; i++)
                memcpy(img_before[i], ctx_g[i].p, A->ctx_size);
        memcpy(mgr_before, mgr_g.p, A->mgr_size);
}

static void
register_all(void)
{
        vc_begin();
        vc_output("mgr", &mgr_g);
        for (int i = 0; i < nctx; i++) {
                vc_output("ctx", &ctx_g[i]);
                if (seg_live[i] && !seg_huge[i])
                        vc_input("seg", &seg_g[i]);
        }
}

/* common tail of Submit/Flush events: what changed, state of every context */
static void
emit_state(int ret)
{
        char buf[MAXCTX * 24 + 16];
        int n;
        /* contexts whose bytes other than `error` changed / whose error changed */
        n = sprintf(buf, "[");
        for (int i = 0, first = 1; i < nctx; i++) {
                uint8_t a[sizeof(ISAL_SHA512_HASH_CTX)], b[sizeof(ISAL_SHA512_HASH_CTX)];
                memcpy(a, img_before[i], A->ctx_size);
                memcpy(b, ctx_g[i].p, A->ctx_size);
                memset(a + A->o_error, 0, 4);
                memset(b + A->o_error, 0, 4);
                if (memcmp(a, b, A->ctx_size)) {
                        n += sprintf(buf + n, "%s%d", first ? "" : ",", i);
                        first = 0;
                }
        }
        sprintf(buf + n, "]");
        ev_raw("chg", buf);
        n = sprintf(buf, "[");
        for (int i = 0, first = 1; i < nctx; i++)
                if (memcmp(img_before[i] + A->o_error, ctx_g[i].p + A->o_error, 4)) {
                        n += sprintf(buf + n, "%s%d", first ? "" : ",", i);
                        first = 0;
                }
        sprintf(buf + n, "]");
        ev_raw("echg", buf);
        ev_int("mchg", memcmp(mgr_before, mgr_g.p, A->mgr_size) ? 1 : 0);
        int udok = 1;
        for (int i = 0; i < nctx; i++)
                if (CTXF(i, A->o_ud, uint64_t) != ud_val[i])
                        udok = 0;
        ev_int("ud", udok);
        n = sprintf(buf, "[");
        for (int i = 0; i < nctx; i++)
                n += sprintf(buf + n, "%s%d", i ? "," : "", (int) CTXF(i, A->o_status, uint32_t));
        sprintf(buf + n, "]");
        ev_raw("sts", buf);
        n = sprintf(buf, "[");
        for (int i = 0; i < nctx; i++)
                n += sprintf(buf + n, "%s%d", i ? "," : "", (int) CTXF(i, A->o_error, int32_t));
        sprintf(buf + n, "]");
        ev_raw("errs", buf);
        if (ret >= 0) {
                uint64_t tl = CTXF(ret, A->o_total, uint64_t);
                if ((tl >> 20) >= (1ull << 30)) /* undefined field (context never started): not representable */
                        sprintf(buf, "[-1,-1]");
                else
                        sprintf(buf, "[%llu,%llu]", (unsigned long long) (tl >> 20), (unsigned long long) (tl & 0xFFFFF));
                ev_raw("rtl", buf);
                if (CTXF(ret, A->o_status, uint32_t) == ISAL_HASH_CTX_STS_COMPLETE && started[ret]) {
                        char hx[160];
                        dig_hex(ret, hx);
                        ev_str("dig", hx);
                } else
                        ev_str("dig", "");
        } else {
                ev_raw("rtl", "[0,0]");
                ev_str("dig", "");
        }
}

static void
release_returned(int ret)
{
        if (ret >= 0 && seg_live[ret] && !(CTXF(ret, A->o_status, uint32_t) & ISAL_HASH_CTX_STS_PROCESSING)) {
                if (!seg_huge[ret])
                        gbuf_free(&seg_g[ret]);
                seg_live[ret] = 0;
                seg_huge[ret] = 0;
        }
}

static void
do_mgr(const cmd *c)
{
        const char *alg = c->t[1], *fam = c->t[2];
        char nm[128];
        nctx = (int) cmd_i(c, 3);
        if (nctx > MAXCTX)
                die("too many contexts");
        A = NULL;
        for (size_t i = 0; i < sizeof algs / sizeof algs[0]; i++)
                if (!strcmp(algs[i].name, alg))
                        A = &algs[i];
        if (!A)
                die("unknown alg %s", alg);
        const char *pre, *suf = "";
        char sufb[40];
        if (!strcmp(fam, "isal")) {
                style = 1;
                pre = "isal_";
        } else if (!strcmp(fam, "legacy")) {
                style = 0;
                pre = "";
        } else if (!strcmp(fam, "int")) {
                style = 0;
                pre = "_";
        } else {
                style = 0;
                pre = "_";
                snprintf(sufb, sizeof sufb, "_%s", fam);
                suf = sufb;
        }
        snprintf(nm, sizeof nm, "%s%s_ctx_mgr_init%s", pre, alg, suf);
        f_init = sym_lookup(nm);
        snprintf(nm, sizeof nm, "%s%s_ctx_mgr_submit%s", pre, alg, suf);
        f_submit = sym_lookup(nm);
        snprintf(nm, sizeof nm, "%s%s_ctx_mgr_flush%s", pre, alg, suf);
        f_flush = sym_lookup(nm);
        if (!f_init || !f_submit || !f_flush)
                die("no entry points for %s/%s", alg, fam);
        gbuf_alloc_obj(&mgr_g, A->mgr_size, A->mgr_align < 16 ? 16 : A->mgr_align); /* every test and example of the repository allocates managers with posix_memalign(.., 16, ..) */
        hidden_fill(mgr_g.p, A->mgr_size, 11);
        gbuf_alloc(&outp_g, 8, PL_MID, 8);
        mgr_before = malloc(A->mgr_size);
        for (int i = 0; i < nctx; i++) {
                gbuf_alloc_obj(&ctx_g[i], A->ctx_size, A->ctx_align);
                hidden_fill(ctx_g[i].p, A->ctx_size, 100 + (uint32_t) i);
                CTXF(i, A->o_error, int32_t) = ISAL_HASH_CTX_ERROR_NONE; /* isal_hash_ctx_init */
                CTXF(i, A->o_status, uint32_t) = ISAL_HASH_CTX_STS_COMPLETE;
                ud_val[i] = splitmix64(0xDA7A + (uint64_t) i);
                CTXF(i, A->o_ud, uint64_t) = ud_val[i];
                img_before[i] = malloc(A->ctx_size);
                seg_live[i] = 0;
                started[i] = 0;
        }
        obs o;
        uint64_t args[1] = { (uint64_t) mgr_g.p };
        register_all();
        snapshot_before();
        uint64_t r = vcall(f_init, 1, args, &o);
        if (!o.fault && obj_reuse()) { /* initialising a manager twice in a row leaves a usable, empty manager */
                register_all();
                r = vcall(f_init, 1, args, &o);
        }
        ev_begin("HReset");
        ev_str("alg", alg);
        ev_str("fam", fam);
        ev_int("nctx", nctx);
        ev_int("style", style);
        ev_int("rc", style ? (int) r : 0);
        ev_obs(&o);
        ev_end();
}

static int do_flush(void);
static void
do_sub(const cmd *c)
{
        int ci = (int) cmd_i(c, 1);
        if (ci >= nctx)
                die("hsub: no such context");
        if (!strcmp(c->t[0], "hsubw")) {
                /* the way a user drives the API: wait (by flushing) until the context is handed back */
                for (int k = 0; k < 80 && (CTXF(ci, A->o_status, uint32_t) & ISAL_HASH_CTX_STS_PROCESSING); k++)
                        if (do_flush() == -1)
                                break;
        }
        uint32_t flags = (uint32_t) cmd_i(c, 2), b = (uint32_t) cmd_i(c, 3);
        uint64_t off = (uint64_t) cmd_i(c, 4), len = (uint64_t) cmd_i(c, 5);
        int place;
        unsigned align;
        /* placement "n": an empty piece handed over as (NULL, 0) - legal for the un-prefixed and per-family entry points */
        int nullptr0 = !strcmp(c->t[6], "n") && len == 0 && !style;
        if (gbuf_parse_place(nullptr0 || !strcmp(c->t[6], "n") ? "e" : c->t[6], &place, &align))
                die("bad placement");
        gbuf newseg;
        int huge = len > (64u << 20);
        uint8_t *ptr;
        if (huge) {
                memset(&newseg, 0, sizeof newseg);
                ptr = huge_window(b) + (off & (PAT_PERIOD - 1));
        } else {
                gbuf_alloc(&newseg, len, place, align);
                pat_fill(newseg.p, b, off, len);
                ptr = nullptr0 ? NULL : newseg.p;
        }
        register_all();
        if (!huge)
                vc_input("newseg", &newseg);
        snapshot_before();
        obs o;
        uint64_t r;
        int reti;
        *(uint64_t *) outp_g.p = 0x5151515151515151ull;
        if (style) {
                uint64_t args[6] = { (uint64_t) mgr_g.p, (uint64_t) ctx_g[ci].p, (uint64_t) outp_g.p, (uint64_t) ptr, len,
                                     flags };
                r = vcall(f_submit, 6, args, &o);
                reti = ctx_index(*(void **) outp_g.p);
        } else {
                uint64_t args[5] = { (uint64_t) mgr_g.p, (uint64_t) ctx_g[ci].p, (uint64_t) ptr, len, flags };
                r = vcall(f_submit, 5, args, &o);
                reti = ctx_index((void *) r);
        }
        /* was the call accepted?  The driver does not decide: it reports whether the context now
         * references the new buffer's job (status/processing are in the event); buffer ownership
         * bookkeeping only: keep the new segment if the context is processing and was not before. */
        int was_proc = (int) (*(uint32_t *) (img_before[ci] + A->o_status) & ISAL_HASH_CTX_STS_PROCESSING);
        int err_now = CTXF(ci, A->o_error, int32_t);
        int rejected = (reti == ci && err_now != 0) || was_proc;
        if (!o.fault && !rejected)
                started[ci] = 1;
        ev_begin("HSubmit");
        ev_int("c", ci);
        ev_int("flags", flags);
        {
                char sb[96];
                snprintf(sb, sizeof sb, "[%u,%llu,%llu,%llu]", b, (unsigned long long) (off & (PAT_PERIOD - 1)),
                         (unsigned long long) (len >> 20), (unsigned long long) (len & 0xFFFFF));
                ev_raw("seg", sb);
        }
        ev_int("ret", reti);
        ev_int("rc", style ? (long long) (int) r : 0);
        emit_state(o.fault ? -1 : reti);
        ev_obs(&o);
        ev_end();
        if (o.fault)
                behaviour_abort("fault in submit");
        if (rejected || !(CTXF(ci, A->o_status, uint32_t) & ISAL_HASH_CTX_STS_PROCESSING)) {
                /* not retained by the library: the caller's buffer is released at once */
                if (!huge)
                        gbuf_free(&newseg);
        } else {
                /* (if a segment is already live the old mapping is simply kept mapped) */
                seg_g[ci] = newseg;
                seg_live[ci] = 1;
                seg_huge[ci] = huge;
        }
        if (reti >= 0 && reti != ci)
                release_returned(reti);
}

static int
do_flush(void)
{
        register_all();
        snapshot_before();
        obs o;
        uint64_t r;
        int reti;
        *(uint64_t *) outp_g.p = 0x5151515151515151ull;
        if (style) {
                uint64_t args[2] = { (uint64_t) mgr_g.p, (uint64_t) outp_g.p };
                r = vcall(f_flush, 2, args, &o);
                reti = ctx_index(*(void **) outp_g.p);
        } else {
                uint64_t args[1] = { (uint64_t) mgr_g.p };
                r = vcall(f_flush, 1, args, &o);
                reti = ctx_index((void *) r);
        }
        ev_begin("HFlush");
        ev_int("ret", reti);
        ev_int("rc", style ? (long long) (int) r : 0);
        emit_state(o.fault ? -1 : reti);
        ev_obs(&o);
        ev_end();
        if (o.fault)
                behaviour_abort("fault in flush");
        release_returned(reti);
        return reti;
}

static void
do_end(void)
{
        for (int i = 0; i < nctx; i++) {
                if (seg_live[i] && !seg_huge[i])
                        gbuf_free(&seg_g[i]);
                seg_live[i] = 0;
                gbuf_free(&ctx_g[i]);
                free(img_before[i]);
        }
        gbuf_free(&mgr_g);
        gbuf_free(&outp_g);
        free(mgr_before);
        nctx = 0;
}

int
hash_cmd(const cmd *c)
{
        if (!strcmp(c->t[0], "hmgr"))
                do_mgr(c);
        else if (!strcmp(c->t[0], "hsub") || !strcmp(c->t[0], "hsubw"))
                do_sub(c);
        else if (!strcmp(c->t[0], "hmove")) { /* the caller relocates a context the manager does not hold */
                int ci = (int) cmd_i(c, 1);
                if (ci >= 0 && ci < nctx && !(CTXF(ci, A->o_status, uint32_t) & ISAL_HASH_CTX_STS_PROCESSING) && !seg_live[ci])
                        gbuf_move_obj(&ctx_g[ci], A->ctx_align);
        } else if (!strcmp(c->t[0], "hflush"))
                do_flush();
        else if (!strcmp(c->t[0], "hdrain")) {
                int lim = (int) cmd_i(c, 1);
                for (int i = 0; i < lim; i++)
                        if (do_flush() == -1)
                                break;
        } else if (!strcmp(c->t[0], "hend"))
                do_end();
        else
                return 0;
        return 1;
}
