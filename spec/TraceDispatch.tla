---------------------------- MODULE TraceDispatch ----------------------------
(* Trace validation of run-time dispatch: every BindAll event (one virtual CPU, all 64 entry points resolved by the
   library's own resolvers under CPUID/XGETBV emulation) is checked against Dispatch. *)
EXTENDS DispatchLadder, TraceLib

ASSUME TLCSet(12, JsonDeserialize(IOEnv.DTABLE))
Table == TLCGet(12)            \* entry -> (macro, candidate families), extracted from the *_multibinary.asm sources
TIdx(entry) == {i \in 1..Len(Table) : Table[i].entry = entry}
Predicted(entry, cfg) == LET i == CHOOSE j \in TIdx(entry) : TRUE IN Table[i].fams[Ladder(Table[i].macro, cfg)]

VARIABLES l, viol
IsEv(name) == l <= NEv /\ Tr[l].e = name
Adv(v) == /\ l' = l + 1 /\ viol' = Cap(viol \o v) /\ PubResult(viol', l')
TInit == l = 1 /\ viol = << >> /\ PubResult(<< >>, 1)
SetOf(s) == {s[i] : i \in 1..Len(s)}

TBind ==
  /\ IsEv("BindAll")
  /\ LET e == Tr[l]
         cfg == SetOf(e.cfg)
         b == SetOf(e.b)
         bad == {x \in b : ~BindingOk(cfg, x[4], x[3])}
         badg == {g \in Groups : ~GroupOk(b, g)}
         \* implementation-shaped layer: the transcription of the resolver macros predicts another candidate (or does not know the entry)
         off == {x \in b : TIdx(x[1]) = {} \/ (TIdx(x[1]) # {} /\ Predicted(x[1], cfg) # x[3])}
     IN Adv(   Chk(Consistent(cfg), "SPEC", "inconsistent-configuration-generated", l, << e.cfg >>)
            \o Chk({y \in bad : y[3] \in KnownFamilies} = {}, "C12", "binding-needs-unavailable-instructions", l,
                   << e.cfg, {<< x[1], x[2], FamilyRequires(x[3]) \ (Avail(cfg) \cup Untested \cup Baseline(x[4])) >> : x \in {y \in bad : y[3] \in KnownFamilies}} >>)
            \* the target's name must be <entry>_<family>: anything else is code written for another entry point (another key
            \* size, the raw-key twin of an expanded-key entry, ...) or not a library symbol at all
            \o Chk({y \in bad : y[3] \notin KnownFamilies} = {}, "C12", "bound-to-code-of-another-entry-point", l,
                   << e.cfg, {<< x[1], x[2] >> : x \in {y \in bad : y[3] \notin KnownFamilies}} >>)
            \o Chk(badg = {}, "C12", "shared-object-bound-to-different-families", l,
                   << e.cfg, {<< x[1], x[3] >> : x \in {y \in b : \E g \in badg : y[1] \in g}} >>)
            \o Chk(off = {}, "DRIFT", "ladder-model-predicts-another-candidate", l,
                   << e.cfg, {<< x[1], x[3], IF TIdx(x[1]) = {} THEN "not in table" ELSE Predicted(x[1], cfg) >> : x \in off} >>)
            \o Chk(e.faults = 0, "C12", "resolver-faulted", l, << e.cfg >>)
            \o Chk(e.abi_bad = 0, "C19", "abi", l, << "resolver", e.abi_name >>)
            \o Chk(e.statics_bad = 0, "C18", "static-write", l, << "resolver wrote more than its binding" >>)
            \* racing first calls bind correctly only if the slot goes from the resolver stub to the final target in one store
            \o Chk(e.multi = 0, "C18", "binding-published-in-more-than-one-step", l, << e.multi_name >>)
            \* ... and a slot that held another implementation before the final one is a binding that changed (C12, last clause)
            \o Chk(e.multi = 0, "C12", "binding-changed-after-first-publication", l, << e.multi_name >>))

TTwice == /\ IsEv("BindTwice")
          /\ Adv(Chk(Tr[l].changed = 0, "C12", "binding-changed-on-second-resolution", l, << Tr[l].name >>))
\* static part: what the code reachable from a family symbol actually uses must be within the family's declaration
\* (SSE/SSE2/SSE3/SSSE3 are below every family's floor)
Floor == {"sse3", "ssse3", "sse2", "sse"}
TIsa ==
  /\ IsEv("IsaUse")
  /\ LET e == Tr[l]  needs == SetOf(e.needs)
         allowed == FamilyRequires(e.fam) \cup Untested \cup Baseline(e.unit) \cup Floor
                    \cup (IF "sse4_1" \in FamilyRequires(e.fam) \/ "avx" \in FamilyRequires(e.fam) THEN {"sse4_1", "sse4_2"} ELSE {})
     IN Adv(Chk(e.fam \in KnownFamilies /\ needs \subseteq allowed, "C12", "family-code-uses-undeclared-instructions", l,
                << e.target, e.fam, needs \ allowed >>))
TSkip == l <= NEv /\ Tr[l].e = "Mark" /\ Adv(<< >>)
TNext == TBind \/ TTwice \/ TIsa \/ TSkip
TSpec == TInit /\ [][TNext]_<< l, viol >>
TraceAccepted == WriteResult /\ TLCGet(2) = NEv + 1
=============================================================================
