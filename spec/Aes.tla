------------------------------- MODULE Aes -------------------------------
(***************************************************************************)
(* FIPS 197 written out in TLA+: the AES block cipher, its inverse, the    *)
(* key expansion (section 5.2) and the decryption schedule of the         *)
(* "equivalent inverse cipher" (5.3.5) that isa-l_crypto stores: round    *)
(* keys in reverse order with InvMixColumns applied to the inner rounds.  *)
(* Bytes are naturals 0..255, blocks are sequences of 16 bytes in the     *)
(* standard's input order (column major state).                           *)
(* This module is the definition; Prim!AesEncBlock / AesDecBlock are fast *)
(* Java bodies that PrimSelfTest checks against Cipher / InvCipher here.  *)
(***************************************************************************)
EXTENDS Naturals, Sequences, Bitwise, FiniteSets

SBoxTab ==
  << 99, 124, 119, 123, 242, 107, 111, 197, 48, 1, 103, 43, 254, 215, 171, 118,
     202, 130, 201, 125, 250, 89, 71, 240, 173, 212, 162, 175, 156, 164, 114, 192,
     183, 253, 147, 38, 54, 63, 247, 204, 52, 165, 229, 241, 113, 216, 49, 21,
     4, 199, 35, 195, 24, 150, 5, 154, 7, 18, 128, 226, 235, 39, 178, 117,
     9, 131, 44, 26, 27, 110, 90, 160, 82, 59, 214, 179, 41, 227, 47, 132,
     83, 209, 0, 237, 32, 252, 177, 91, 106, 203, 190, 57, 74, 76, 88, 207,
     208, 239, 170, 251, 67, 77, 51, 133, 69, 249, 2, 127, 80, 60, 159, 168,
     81, 163, 64, 143, 146, 157, 56, 245, 188, 182, 218, 33, 16, 255, 243, 210,
     205, 12, 19, 236, 95, 151, 68, 23, 196, 167, 126, 61, 100, 93, 25, 115,
     96, 129, 79, 220, 34, 42, 144, 136, 70, 238, 184, 20, 222, 94, 11, 219,
     224, 50, 58, 10, 73, 6, 36, 92, 194, 211, 172, 98, 145, 149, 228, 121,
     231, 200, 55, 109, 141, 213, 78, 169, 108, 86, 244, 234, 101, 122, 174, 8,
     186, 120, 37, 46, 28, 166, 180, 198, 232, 221, 116, 31, 75, 189, 139, 138,
     112, 62, 181, 102, 72, 3, 246, 14, 97, 53, 87, 185, 134, 193, 29, 158,
     225, 248, 152, 17, 105, 217, 142, 148, 155, 30, 135, 233, 206, 85, 40, 223,
     140, 161, 137, 13, 191, 230, 66, 104, 65, 153, 45, 15, 176, 84, 187, 22 >>

SBox(b) == SBoxTab[b + 1]
InvSBox(b) == CHOOSE x \in 0..255 : SBoxTab[x + 1] = b

XTime(b) == IF b >= 128 THEN ((2 * b) % 256) ^^ 27 ELSE 2 * b

\* GF(2^8) multiplication by a small constant, by repeated doubling
RECURSIVE GMul(_, _)
GMul(a, c) == IF c = 0 THEN 0
              ELSE LET r == GMul(XTime(a), c \div 2)
                   IN IF c % 2 = 1 THEN a ^^ r ELSE r

X4(a, b, c, d) == ((a ^^ b) ^^ c) ^^ d
Xor4(a, b) == [i \in 1..4 |-> a[i] ^^ b[i]]
XorSeq(a, b) == [i \in 1..Len(a) |-> a[i] ^^ b[i]]

SubWord(w) == [i \in 1..4 |-> SBox(w[i])]
RotWord(w) == << w[2], w[3], w[4], w[1] >>
RECURSIVE RconByte(_)
RconByte(i) == IF i = 1 THEN 1 ELSE XTime(RconByte(i - 1))
Rcon(i) == << RconByte(i), 0, 0, 0 >>

Nk(key) == Len(key) \div 4
Nr(key) == Nk(key) + 6

\* key schedule as a sequence of 4*(Nr+1) words (each a 4-byte sequence), FIPS 197 fig. 11
RECURSIVE ExpandWords(_, _, _)
ExpandWords(key, w, i) ==
  IF i = 4 * (Nr(key) + 1) THEN w
  ELSE LET nk == Nk(key)
           prev == w[i]                      \* w[i-1] in 0-based numbering
           temp == IF i % nk = 0 THEN Xor4(SubWord(RotWord(prev)), Rcon(i \div nk))
                   ELSE IF nk > 6 /\ i % nk = 4 THEN SubWord(prev)
                   ELSE prev
       IN ExpandWords(key, Append(w, Xor4(w[i - nk + 1], temp)), i + 1)

KeyWords(key) ==
  ExpandWords(key, [i \in 1..Nk(key) |-> SubSeq(key, 4 * i - 3, 4 * i)], Nk(key))

\* round keys as a sequence of Nr+1 16-byte sequences
RoundKeys(key) ==
  LET w == KeyWords(key)
  IN [r \in 1..(Nr(key) + 1) |-> w[4 * r - 3] \o w[4 * r - 2] \o w[4 * r - 1] \o w[4 * r]]

SubBytes(s) == [i \in 1..16 |-> SBox(s[i])]
InvSubBytes(s) == [i \in 1..16 |-> InvSBox(s[i])]
\* state byte (row r, column c) is s[4c + r + 1]
ShiftRows(s) == [i \in 1..16 |-> LET r == (i - 1) % 4  c == (i - 1) \div 4
                                 IN s[4 * ((c + r) % 4) + r + 1]]
InvShiftRows(s) == [i \in 1..16 |-> LET r == (i - 1) % 4  c == (i - 1) \div 4
                                    IN s[4 * ((c + 4 - r) % 4) + r + 1]]
MixCol(a) == << X4(GMul(a[1], 2), GMul(a[2], 3), a[3], a[4]),
                X4(a[1], GMul(a[2], 2), GMul(a[3], 3), a[4]),
                X4(a[1], a[2], GMul(a[3], 2), GMul(a[4], 3)),
                X4(GMul(a[1], 3), a[2], a[3], GMul(a[4], 2)) >>
InvMixCol(a) == << X4(GMul(a[1], 14), GMul(a[2], 11), GMul(a[3], 13), GMul(a[4], 9)),
                   X4(GMul(a[1], 9), GMul(a[2], 14), GMul(a[3], 11), GMul(a[4], 13)),
                   X4(GMul(a[1], 13), GMul(a[2], 9), GMul(a[3], 14), GMul(a[4], 11)),
                   X4(GMul(a[1], 11), GMul(a[2], 13), GMul(a[3], 9), GMul(a[4], 14)) >>
MixColumns(s) == MixCol(SubSeq(s, 1, 4)) \o MixCol(SubSeq(s, 5, 8)) \o
                 MixCol(SubSeq(s, 9, 12)) \o MixCol(SubSeq(s, 13, 16))
InvMixColumns(s) == InvMixCol(SubSeq(s, 1, 4)) \o InvMixCol(SubSeq(s, 5, 8)) \o
                    InvMixCol(SubSeq(s, 9, 12)) \o InvMixCol(SubSeq(s, 13, 16))

RECURSIVE Rounds(_, _, _, _)
Rounds(s, rk, r, nr) ==
  IF r = nr THEN XorSeq(ShiftRows(SubBytes(s)), rk[nr + 1])
  ELSE Rounds(XorSeq(MixColumns(ShiftRows(SubBytes(s))), rk[r + 1]), rk, r + 1, nr)

Cipher(key, blk) == LET rk == RoundKeys(key)
                    IN Rounds(XorSeq(blk, rk[1]), rk, 1, Nr(key))

RECURSIVE InvRounds(_, _, _)
InvRounds(s, rk, r) ==
  IF r = 0 THEN XorSeq(InvSubBytes(InvShiftRows(s)), rk[1])
  ELSE InvRounds(InvMixColumns(XorSeq(InvSubBytes(InvShiftRows(s)), rk[r + 1])), rk, r - 1)

InvCipher(key, blk) == LET rk == RoundKeys(key)  nr == Nr(key)
                       IN InvRounds(XorSeq(blk, rk[nr + 1]), rk, nr - 1)

(***************************************************************************)
(* The schedules isa-l_crypto's key expansion must produce (C04):          *)
(*   EncSchedule(key) = RoundKeys(key) concatenated, 16*(Nr+1) bytes;      *)
(*   DecSchedule(key): slot 0 = last round key, slots 1..Nr-1 =            *)
(*   InvMixColumns of round keys Nr-1..1, slot Nr = round key 0 (the raw   *)
(*   first 16 key bytes).                                                  *)
(***************************************************************************)
RECURSIVE Concat(_)
Concat(ss) == IF Len(ss) = 0 THEN << >> ELSE Head(ss) \o Concat(Tail(ss))

EncSchedule(key) == Concat(RoundKeys(key))
DecRoundKeys(key) ==
  LET rk == RoundKeys(key)  nr == Nr(key)
  IN [j \in 1..(nr + 1) |-> IF j = 1 THEN rk[nr + 1]
                            ELSE IF j = nr + 1 THEN rk[1]
                            ELSE InvMixColumns(rk[nr + 2 - j])]
DecSchedule(key) == Concat(DecRoundKeys(key))
=============================================================================
