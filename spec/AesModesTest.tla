---------------------------- MODULE AesModesTest ----------------------------
(* Published vectors for the mode definitions of AesModes (run by setup_cmd). *)
EXTENDS Naturals, Sequences, TLC, AesModes

H(x) == FromHex(x)
\* SP 800-38A F.2.1 / F.2.2 (CBC-AES128)
K38A == H("2b7e151628aed2a6abf7158809cf4f3c")
IV38A == H("000102030405060708090a0b0c0d0e0f")
P38A == H("6bc1bee22e409f96e93d7e117393172aae2d8a571e03ac9c9eb76fac45af8e51")
C38A == H("7649abac8119b246cee98e9b12e9197d5086cb9b507219ee95db113a917678b2")
ASSUME CbcEnc(K38A, IV38A, P38A) = C38A
ASSUME CbcDec(K38A, IV38A, C38A) = P38A
\* F.2.5 CBC-AES256 first block
ASSUME SubSeq(CbcEnc(H("603deb1015ca71be2b73aef0857d77811f352c073b6108d72d9810a30914dff4"), IV38A, P38A), 1, 16)
       = H("f58c4c04d6e5f1ba779eabfb5f7bfbd6")

\* GCM (McGrew & Viega test cases 1, 2, 4, 16)
Z(n) == Zeros(n)
ASSUME ToHex(GcmEnc(Z(16), Z(12), << >>, << >>, 16).tag) = "58e2fccefa7e3061367f1d57a4e7455a"
ASSUME LET r == GcmEnc(Z(16), Z(12), << >>, Z(16), 16)
       IN ToHex(r.out) = "0388dace60b6a392f328c2b971b2fe78" /\ ToHex(r.tag) = "ab6e47d42cec13bdf53a67b21257bddf"
KG == H("feffe9928665731c6d6a8f9467308308")
IVG == H("cafebabefacedbaddecaf888")
PG == H("d9313225f88406e5a55909c5aff5269a86a7a9531534f7da2e4c303d8a318a721c3c0c95956809532fcf0e2449a6b525b16aedf5aa0de657ba637b39")
AG == H("feedfacedeadbeeffeedfacedeadbeefabaddad2")
CG == H("42831ec2217774244b7221b784d0d49ce3aa212f2c02a4e035c17e2329aca12e21d514b25466931c7d8f6a5aac84aa051ba30b396a0aac973d58e091")
ASSUME LET r == GcmEnc(KG, IVG, AG, PG, 16) IN r.out = CG /\ ToHex(r.tag) = "5bc94fbc3221a5db94fae95ae7121a47"
ASSUME LET r == GcmDec(KG, IVG, AG, CG, 12) IN r.out = PG /\ ToHex(r.tag) = "5bc94fbc3221a5db94fae95a"
ASSUME LET r == GcmEnc(KG \o KG, IVG, AG, PG, 8)
       IN ToHex(r.out) = "522dc1f099567d07f47f37a32a84427d643a8cdcbfe5c0c97598a2bd2555d1aa8cb08e48590dbb3da7b08b1056828838c5f61e6393ba7a0abcc9f662"
          /\ ToHex(r.tag) = "76fc6ece0f4e1768"
\* counter arithmetic: AddCtr agrees with repeated inc32, including the carry out of the low byte
ASSUME \A n \in {0, 1, 254, 255, 256, 257, 511, 65535, 65536} :
         AddCtr(H("000000000000000000000000fffffffe"), n) = IncN(H("000000000000000000000000fffffffe"), n % 700)
         \/ n > 700
ASSUME AddCtr(J0(IVG), 300) = IncN(J0(IVG), 300)
\* streaming view of GCTR: key stream by offset equals the one-shot key stream
ASSUME \A pos \in {0, 1, 15, 16, 17, 31} : \A len \in {0, 1, 15, 16, 17, 33} :
         KeyStream(KG, IVG, pos, len) = SubSeq(KeyStream(KG, IVG, 0, pos + len), pos + 1, pos + len)

\* XTS (IEEE 1619 vectors 1, 15, 16, 17)
ASSUME ToHex(XtsEnc(Z(16), Z(16), Z(16), Z(32))) = "917cf69ebd68b2ec9b9fe9a3eadda692cd43d2f59598ed858c02c2652fbf922e"
X1 == H("fffefdfcfbfaf9f8f7f6f5f4f3f2f1f0")
X2 == H("bfbebdbcbbbab9b8b7b6b5b4b3b2b1b0")
XT == H("9a785634120000000000000000000000")
ASSUME ToHex(XtsEnc(X1, X2, XT, H("000102030405060708090a0b0c0d0e0f10"))) = "6c1625db4671522d3d7599601de7ca09ed"
ASSUME ToHex(XtsEnc(X1, X2, XT, H("000102030405060708090a0b0c0d0e0f1011"))) = "d069444b7a7e0cab09e24447d24deb1fedbf"
ASSUME ToHex(XtsEnc(X1, X2, XT, H("000102030405060708090a0b0c0d0e0f101112"))) = "e5df1351c0544ba1350b3363cd8ef4beedbf9d"
ASSUME \A n \in {16, 17, 31, 32, 33, 47, 48, 49, 100} :
         LET p == PatBytes(n, n, n) IN XtsDec(X1, X2, XT, XtsEnc(X1, X2, XT, p)) = p
ASSUME \A n \in {16, 48, 160} :
         LET p == PatBytes(n, 1, n) IN CbcDec(KG \o SubSeq(KG, 1, 8), IV38A, CbcEnc(KG \o SubSeq(KG, 1, 8), IV38A, p)) = p

VARIABLE x
Init == x = 0
Next == UNCHANGED x
Spec == Init /\ [][Next]_x
=============================================================================
