------------------------------ MODULE TraceLib ------------------------------
(***************************************************************************)
(* Shared plumbing of the trace specifications: the recorded execution     *)
(* (ndjson, one event per public call return) is read from the file named  *)
(* by the TRACE environment variable; violations found while replaying it  *)
(* are accumulated as records [p |-> property, what |-> fingerprint,       *)
(* l |-> event index, info |-> detail] and written, with the number of     *)
(* events consumed, to the JSON file named by RESULT.                      *)
(***************************************************************************)
EXTENDS Naturals, Sequences, TLC, TLCExt, Json, IOUtils

\* the trace is parsed once (register 10) - TLC would otherwise re-evaluate the definition at every use
ASSUME TLCSet(10, ndJsonDeserialize(IOEnv.TRACE))
Tr == TLCGet(10)
NEv == Len(Tr)

\* one check: empty when it holds, one violation record otherwise
Chk(cond, p, what, l, info) ==
  IF cond THEN << >> ELSE << [p |-> p, what |-> what, l |-> l, info |-> info] >>

MaxViol == 200
Cap(v) == IF Len(v) > MaxViol THEN SubSeq(v, 1, MaxViol) ELSE v

\* registers: 1 = violations so far, 2 = next event index, 3 = free-form statistics
PubResult(v, l) == TLCSet(1, v) /\ TLCSet(2, l)

WriteResult ==
  JsonSerialize(IOEnv.RESULT, [consumed |-> TLCGet(2) - 1, events |-> NEv, viol |-> TLCGet(1)])
=============================================================================
