------------------------------ MODULE RollingHash ------------------------------
(***************************************************************************)
(* Rolling hash (C09).  The hash of a window of w bytes b_1..b_w is the    *)
(* fixed function                                                          *)
(*     H(b) = XOR_j rol64(T1[b_j], w - j)                                  *)
(* of those bytes and the library's constant table T1 (module RhTable is   *)
(* a pinned copy).  A run over a buffer reports a hit at the first         *)
(* position i (1-based count of bytes consumed) at which the hash of the   *)
(* last w stream bytes satisfies (hash & mask) = trigger on its low 32     *)
(* bits, otherwise consumes the whole buffer.  Values are byte sequences   *)
(* (64-bit little-endian) because TLC integers are 32 bit.                 *)
(*                                                                         *)
(* State of the verdict spec: the window size w and the last w bytes of    *)
(* the stream (hist).  Everything else is derived - in particular the      *)
(* result cannot depend on how the stream was cut into run calls.          *)
(***************************************************************************)
EXTENDS Naturals, Sequences, SequencesExt, Bitwise, Prim, RhTable

T1(b) == FromHex(T1Hex[b + 1])
Zero8 == << 0, 0, 0, 0, 0, 0, 0, 0 >>

\* closed form: hash of a full window
H(win) == FoldLeft(LAMBDA acc, j : XorBytes(acc, Rol64(T1(win[j]), Len(win) - j)), Zero8, [j \in 1..Len(win) |-> j])
\* recurrence used by every implementation; Roll(H(old \o rest), new, old, w) = H(rest \o new)
Roll(h, new, old, w) == XorBytes(XorBytes(Rol64(h, 1), T1(new)), Rol64(T1(old), w))

\* (h & mask) = trigger on the low 32 bits; mask, trig are 4 little-endian bytes
Hit(h, mask, trig) == \A k \in 1..4 : (h[k] & mask[k]) = trig[k]

\* scan: state [h, hist] (hist = last w bytes), returns [off, hit, h, hist]
RECURSIVE Scan(_, _, _, _, _, _, _)
Scan(buf, i, h, hist, w, mask, trig) ==
  IF i > Len(buf) THEN [off |-> Len(buf), hit |-> FALSE, h |-> h, hist |-> hist]
  ELSE LET h2 == Roll(h, buf[i], hist[1], w)
           hist2 == Tail(hist) \o << buf[i] >>
       IN IF Hit(h2, mask, trig) THEN [off |-> i, hit |-> TRUE, h |-> h2, hist |-> hist2]
          ELSE Scan(buf, i + 1, h2, hist2, w, mask, trig)

Run(hist, buf, mask, trig) == Scan(buf, 1, H(hist), hist, Len(hist), mask, trig)

\* isal_rolling_hashx_mask_gen: rol32(floor_pow2(max(mean, 2)) - 1, shift) as 4 LE bytes;
\* given here for mean < 2^31 through its bit pattern: k low one-bits rotated left by shift
FloorLog2(n) == CHOOSE k \in 0..30 : 2 ^ k <= n /\ (k = 30 \/ n < 2 ^ (k + 1))
MaskBits(mean, shift) ==
  LET k == FloorLog2(IF mean <= 2 THEN 2 ELSE mean)
  IN {(b + shift) % 32 : b \in 0..(k - 1)}
MaskGen(mean, shift) ==
  LET bits == MaskBits(mean, shift)
      byte(n) == FoldLeft(LAMBDA a, b : a + (IF (8 * n + b) \in bits THEN 2 ^ b ELSE 0), 0, [b \in 1..8 |-> b - 1])
  IN << byte(0), byte(1), byte(2), byte(3) >>
=============================================================================
