#!/bin/sh
# usage: confirm_mutant.sh <worktree> <mutant dir> [FIPS]   - independent confirmation of a seeded change:
# clean: builds + demo passes; mutated: builds, existing tests give the same result as on the clean tree
# (make -k check: only the pre-existing mh_sha256_test reference miscompile may fail), demo fails. Restores the worktree.
WT=$1; M=$2; FIPS=${3:-}
cd "$WT" || exit 9
git checkout -- . 2>/dev/null
make -f Makefile.unx clean >/dev/null 2>&1
EXTRA=""
[ -n "$FIPS" ] && EXTRA="FIPS_MODE=y"
make -f Makefile.unx -j8 lib $EXTRA >/dev/null 2>&1 || { echo "CLEAN BUILD FAILED $M"; exit 1; }
timeout 900 sh "$M/demo.sh" "$WT" >/tmp/cm.$$.clean 2>&1; c=$?
git apply "$M/patch.diff" || { echo "PATCH FAILED $M"; exit 1; }
make -f Makefile.unx clean >/dev/null 2>&1
make -f Makefile.unx -j8 lib >/dev/null 2>&1 || { echo "MUT BUILD FAILED $M"; git checkout -- .; exit 1; }
make -f Makefile.unx -j8 -k check >/tmp/cm.$$.check 2>&1
fails=$(grep -E "^make.*\*\*\*.*\.run\]? Error|\.run\] Error" /tmp/cm.$$.check | grep -o "[a-z0-9_]*_test\.run" | sort -u | tr '\n' ' ')
done_n=$(grep -c "Completed run" /tmp/cm.$$.check)
if [ -n "$FIPS" ]; then make -f Makefile.unx clean >/dev/null 2>&1; make -f Makefile.unx -j8 lib $EXTRA >/dev/null 2>&1; fi
timeout 900 sh "$M/demo.sh" "$WT" >/tmp/cm.$$.mut 2>&1; m=$?
git checkout -- .
make -f Makefile.unx clean >/dev/null 2>&1
echo "RESULT $M clean_demo=$c tests_completed=$done_n failing=[$fails] mutated_demo=$m"
rm -f /tmp/cm.$$.*
