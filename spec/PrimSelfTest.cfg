SPECIFICATION Spec
