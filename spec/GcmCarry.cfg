SPECIFICATION Spec
CONSTANTS
  B = 4
  MaxLen = 13
  Lens = {0, 1, 2, 3, 4, 5, 7, 8, 9}
INVARIANTS KeyStreamByPosition CarryIsResidue CounterIsCeil HashedIsFloor EveryByteHashedOnce
CHECK_DEADLOCK FALSE
