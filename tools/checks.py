"""The checks, one function per property; REGISTRY maps property id -> function."""
import json, os, random, hashlib, time
from concurrent.futures import ThreadPoolExecutor
import verif, build, gen_hash

REGISTRY = {}
HASH_SRCS = ["main.c", "core.c", "vcall.S", "drv_hash.c"]
WORKERS = 14


def reg(pid):
    def deco(f):
        REGISTRY[pid] = f
        return f
    return deco


def _behaviour_of_event(trace_path, l, marker="HReset"):
    """index (0-based) of the behaviour containing event l (1-based)"""
    n = -1
    with open(trace_path) as f:
        for i, line in enumerate(f, 1):
            if '"e":"%s"' % marker in line[:40]:
                n += 1
            if i >= l:
                break
    return max(n, 0)


def run_jobs(jobs, exe, trace_spec, env=None, dfs=False):
    """jobs: list of dict(name, behaviours=[list of command lines]).  Runs driver + TLC validation in
    parallel.  Returns list of dict(job, result, trace, rc)."""
    def one(job):
        d = verif.scratch(job["name"])
        trace = os.path.join(d, "trace.ndjson")
        text = ""
        for i, b in enumerate(job["behaviours"]):
            text += "mark %d\n" % i + "\n".join(b) + "\n"
        rc, err = verif.run_driver(exe, text, trace, env=env)
        if rc not in (0,):
            raise verif.MachineryError("driver failed on job %s rc=%d: %s" % (job["name"], rc, err[-800:]))
        res = verif.validate_trace(trace_spec, trace, dfs=dfs, env=job.get("env"))
        if res["consumed"] != res["events"]:
            raise verif.MachineryError("trace spec %s stopped at event %d of %d in job %s (spec cannot explain the event shape):\n%s"
                                       % (trace_spec, res["consumed"] + 1, res["events"], job["name"], res["out_tail"]))
        return {"job": job, "result": res, "trace": trace, "aborted": "trace ends here" in err}
    with ThreadPoolExecutor(max_workers=WORKERS) as ex:
        return list(ex.map(one, jobs))


def collect(chk, outs, props, marker="HReset"):
    """Feed violation records with property in `props` into the Check; returns stats."""
    nb = ne = 0
    for o in outs:
        nb += len(o["job"]["behaviours"])
        ne += o["result"]["events"]
        for v in o["result"]["viol"]:
            if v["p"] not in props and v["p"] != "FAULT":
                chk.other[v["p"]] = chk.other.get(v["p"], 0) + 1
                continue
            bi = _behaviour_of_event(o["trace"], v["l"], marker)
            beh = o["job"]["behaviours"][min(bi, len(o["job"]["behaviours"]) - 1)]
            pre = o["job"].get("prelude", "")
            chk.add_violation(dict(v, p=chk.prop), replay_lines="# driver: %s\n%s%s\n" % (o["job"].get("driver", "hash"), pre, "\n".join(beh)),
                              tag=o["job"]["name"])
    return nb, ne


# ------------------------------------------------------------------------------------------ hash
def hash_jobs(seed, per_fam, algs=None, rejects=0.0, classes=True, fams=None):
    rng = random.Random(seed)
    jobs = []
    for alg in (algs or list(gen_hash.FAMS)):
        for fam in (fams or gen_hash.all_families(alg)):
            if fam not in gen_hash.all_families(alg):
                continue
            bs = []
            for i in range(per_fam):
                if classes and i % 3 == 0:
                    bs.append(gen_hash.class_behaviour(rng, alg, fam, gen_hash.CLASS_PATTERNS[(i // 3) % len(gen_hash.CLASS_PATTERNS)]))
                else:
                    bs.append(gen_hash.random_behaviour(rng, alg, fam, with_rejects=rejects))
            jobs.append(hash_job("%s-%s" % (alg, fam), bs))
    return jobs


def hash_job(name, bs):
    maxn = max([int(l.split()[3]) for b in bs for l in b if l.startswith("hmgr ")] + [1])
    return {"name": name, "behaviours": bs, "driver": "hash", "env": {"MAXN": str(maxn)}}


def hash_replay(chk, path, props):
    exe = build.build_driver("hash", HASH_SRCS)
    lines = [x for x in open(path).read().splitlines() if x and not x.startswith("#")]
    outs = run_jobs([hash_job("replay", [lines])], exe, "TraceHash")
    collect(chk, outs, props)
    return outs


def model_check(chk, runs):
    """runs: list of (spec, cfg, workers, timeout). Adds TLC state counts to the evidence;
    an invariant / property violation in the model is a VIOLATION of the check's property."""
    tot_g = tot_d = 0
    details = []
    for spec, cfg, workers, timeout in runs:
        rc, out, dt = verif.tlc(spec, cfg=cfg, workers=workers, timeout=timeout, xmx="24g")
        g, d = verif.tlc_stats(out)
        tot_g += g
        tot_d += d
        details.append({"spec": spec, "cfg": cfg, "generated": g, "distinct": d, "s": round(dt, 1), "rc": rc})
        if rc == 0:
            continue
        if "is violated" in out or "Temporal properties were violated" in out or "Deadlock reached" in out:
            what = "model-invariant"
            tail = out[out.find("Error:"):][:3000]
            chk.add_violation({"p": chk.prop, "what": what, "l": 0, "info": [spec, cfg, tail]}, replay_lines=tail)
        else:
            raise verif.MachineryError("TLC failed on %s/%s rc=%d:\n%s" % (spec, cfg, rc, out[-3000:]))
    chk.cov["states"] = tot_d
    chk.cov["transitions"] = tot_g
    chk.cov["model_runs"] = details
    return details


def _finish_traces(chk, jobs, outs, nb, ne, rule):
    chk.cov["traces_validated_against_impl"] = nb
    chk.cov["evaluations"] = ne
    distinct = {hashlib.sha1("\n".join(b).encode()).hexdigest() for j in jobs for b in j["behaviours"] if len(b) > 3}
    chk.cov["distinct_nontrivial"] = len(distinct)
    chk.cov["rule"] = rule
    chk.cov["samples"] = [{"job": j["name"], "behaviour": j["behaviours"][0][:12]} for j in jobs[:3]]
    chk.cov["jobs"] = len(jobs)
    chk.cov["tlc_validation_s"] = round(sum(o["result"]["tlc_s"] for o in outs), 1)


@reg("C01")
def check_c01(tier, seed, replay=None, selftest=False):
    chk = verif.Check("C01", "model_checking", tier, seed)
    props = {"C01"}
    if replay:
        hash_replay(chk, replay, props)
        chk.cov.update({"states": 1, "transitions": 1, "traces_validated_against_impl": 1, "samples": [replay]})
        return chk.finish()
    exe = build.build_driver("hash", HASH_SRCS)
    jobs = hash_jobs(seed, 24 if tier == "quick" else 400)
    outs = run_jobs(jobs, exe, "TraceHash")
    nb, ne = collect(chk, outs, props)
    _finish_traces(chk, jobs, outs, nb, ne,
                   "behaviour = one manager's history (random + state-class-directed generators, all 28 family instances "
                   "+ isal_/legacy entry points); evaluations = public-call events validated by TLC against HashAPI; "
                   "distinct = distinct command sequences with more than one submit")
    chk.assumptions += ["TLC + Java primitive overrides (self-tested at setup)", "host CPU executes every family"]
    return chk.finish()


def _hash_check(pid, tier, seed, replay, per_quick, per_thorough, rejects, rule_extra=""):
    chk = verif.Check(pid, "model_checking", tier, seed)
    props = {pid}
    if replay:
        hash_replay(chk, replay, props)
        chk.cov.update({"states": 1, "transitions": 1, "traces_validated_against_impl": 1, "samples": [replay]})
        return chk.finish()
    exe = build.build_driver("hash", HASH_SRCS)
    jobs = hash_jobs(seed * 7919 + int(pid[1:]), per_quick if tier == "quick" else per_thorough, rejects=rejects)
    outs = run_jobs(jobs, exe, "TraceHash")
    nb, ne = collect(chk, outs, props)
    _finish_traces(chk, jobs, outs, nb, ne,
                   "behaviour = one manager's history (random + state-class-directed generators, all 28 family instances "
                   "+ isal_/legacy entry points)" + rule_extra + "; evaluations = public-call events validated by TLC "
                   "against HashAPI; distinct = distinct command sequences with more than one submit")
    chk.assumptions += ["TLC + Java primitive overrides (self-tested at setup)", "host CPU executes every family"]
    return chk


@reg("C06")
def check_c06(tier, seed, replay=None, selftest=False):
    chk = _hash_check("C06", tier, seed, replay, 24, 400, 0.15, ", with mid-stream flushes, drain epilogue and a few refused calls")
    return chk if isinstance(chk, int) else chk.finish()


@reg("C11")
def check_c11(tier, seed, replay=None, selftest=False):
    chk = _hash_check("C11", tier, seed, replay, 24, 400, 0.3, ", with refused submits (bad flags, in-flight context, continue-after-complete) injected at random points")
    return chk if isinstance(chk, int) else chk.finish()
